------------------------------ MODULE MCAbs ------------------------------
(***************************************************************************)
(* Exhaustive model checking of layer 1 (ArcheAbs) over a small universe:  *)
(* every operation with every argument tuple (legal and illegal) from      *)
(* every reachable abstract world.  The invariants and action properties   *)
(* below are the design-level forms of the listed properties; TLC checks   *)
(* that the operation semantics the trace validation uses as its oracle    *)
(* really has them.                                                        *)
(***************************************************************************)
EXTENDS ArcheAbs, FiniteSetsExt, Json

CONSTANTS MaxH,      \* handles issued between two resets
          Comps,     \* component ids
          Rels,      \* relation component ids (subset of Comps)
          Sized,     \* components that carry a value
          MaxSeq,    \* maximal length of id lists in arguments
          MaxOpen,   \* held queries
          MaxRegs,   \* registered filters
          Vals,      \* values written by Set
          MaxEmit    \* histories up to this length (+1) are printed as symbolic schedules when they end in an illegal call

VARIABLES w, last, hist, steps

vars == <<w, last, hist, steps>>

Cfg == [comps |-> Comps, rels |-> Rels, sized |-> Sized, nres |-> 1, totalBits |-> 256,
        lst |-> [on |-> TRUE, S |-> 63, C |-> {}, hasC |-> FALSE], isDispatch |-> FALSE, subs |-> <<>>, capInc |-> 1, relCapInc |-> 0]

F(k, ids) == [k |-> k, ids |-> ids, exc |-> <<>>, tgt |-> Zero, reg |-> -1, subs |-> <<>>]
RelF(inner, t) == [k |-> "rel", ids |-> <<>>, exc |-> <<>>, tgt |-> t, reg |-> -1, subs |-> <<inner>>]
CachedF(r, orig) == [k |-> "cached", ids |-> <<>>, exc |-> <<>>, tgt |-> Zero, reg |-> r, subs |-> <<orig>>]

Handles(x) == Range(x.iss)
Targets(x) == {Zero} \cup Handles(x)

(* Filter catalogue: everything, one component, exclusive, relation filters *)
(* requiring the relation component, with every known target.               *)
PlainFilters(x) ==
    { F("all", <<>>) } \cup { F("all", <<c>>) : c \in Comps } \cup { F("excl", <<c>>) : c \in Comps }
    \cup { [F("mf", <<cd[1]>>) EXCEPT !.exc = <<cd[2]>>] : cd \in { pr \in Comps \X Comps : pr[1] # pr[2] } }
    \cup { RelF(F("all", <<r>>), t) : r \in Rels, t \in Targets(x) }
Filters(x) ==
    PlainFilters(x) \cup { CachedF(i - 1, x.regs[i].f) : i \in { j \in DOMAIN x.regs : x.regs[j].live } }

(* Argument lists: all lists up to MaxSeq, plus the interesting longer ones *)
(* (a duplicate id, two relation components).                               *)
IdSeqs == UNION { [1..n -> Comps] : n \in 0..MaxSeq }
          \cup { <<c, c>> : c \in Comps } \cup { <<pr[1], pr[2]>> : pr \in { q \in Rels \X Rels : q[1] # q[2] } }
RegFilters(x) == { F("all", <<>>) } \cup { RelF(F("all", <<r>>), t) : r \in Rels, t \in Targets(x) }
IdSeqs1 == UNION { [1..n -> Comps] : n \in 0..1 }

(* Relation arguments: none; relation + target; target without relation;   *)
(* relation without target.                                                 *)
AnyRel == CHOOSE r \in Rels : TRUE
RelArgs(x) ==
    { [hasRel |-> FALSE, rel |-> AnyRel, hasTgt |-> FALSE, t |-> Zero],
      [hasRel |-> FALSE, rel |-> AnyRel, hasTgt |-> TRUE, t |-> Zero] }
    \cup { [hasRel |-> TRUE, rel |-> r, hasTgt |-> FALSE, t |-> Zero] : r \in Rels }
    \cup { [hasRel |-> TRUE, rel |-> rt[1], hasTgt |-> TRUE, t |-> rt[2]] : rt \in Rels \X Targets(x) }
BatchRelArgs(x) ==
    { [hasRel |-> FALSE, rel |-> AnyRel, t |-> Zero] }
    \cup { [hasRel |-> TRUE, rel |-> rt[1], t |-> rt[2]] : rt \in Rels \X Targets(x) }
BatchFilters(x) ==
    { F("all", <<>>) } \cup { F("all", <<c>>) : c \in Comps }
    \cup { RelF(F("all", <<r>>), t) : r \in Rels, t \in Targets(x) }
    \cup { CachedF(i - 1, x.regs[i].f) : i \in { j \in DOMAIN x.regs : x.regs[j].live } }

NextHandle(x) == << Len(x.iss) + 1, 0 >>
NextHandles(x, n) == [i \in 1..n |-> << Len(x.iss) + i, 0 >>]

NoLast == [op |-> "none", why |-> "", ents |-> {}, evs |-> {}, single |-> FALSE, structural |-> FALSE,
           tgtArg |-> Zero, hasTgtArg |-> FALSE, add |-> <<>>, rem |-> <<>>, hasRel |-> FALSE, rel |-> -1]
L(op, why, ents, evs, single, t, hasT) ==
    [op |-> op, why |-> why, ents |-> ents, evs |-> evs, single |-> single, structural |-> TRUE,
     tgtArg |-> t, hasTgtArg |-> hasT, add |-> <<>>, rem |-> <<>>, hasRel |-> FALSE, rel |-> -1]

(* symbolic schedule records for the Go harness; entities by issuance index (handles are <<k, 0>>) *)
HRef(h) == IF h = Zero THEN -1 ELSE h[1] - 1
RECURSIVE HFJ(_)
HFJ(f) == IF f.k = "rel" THEN [k |-> "rel", ids |-> <<>>, exc |-> <<>>, subs |-> << HFJ(f.subs[1]) >>, tgt |-> HRef(f.tgt), reg |-> 0]
          ELSE IF f.k = "cached" THEN [k |-> "cached", ids |-> <<>>, exc |-> <<>>, subs |-> <<>>, tgt |-> -1, reg |-> f.reg]
          ELSE [k |-> f.k, ids |-> f.ids, exc |-> f.exc, subs |-> <<>>, tgt |-> -1, reg |-> 0]
HOp == [op |-> "", api |-> "", ids |-> <<>>, add |-> <<>>, rem |-> <<>>, e |-> 0, tgt |-> -1, hasRel |-> FALSE, rel |-> 0,
        hasTgt |-> FALSE, n |-> 0, c |-> 0, v |-> 0, reg |-> 0, qi |-> 0, r |-> 0, w |-> 0]
Log(rec) == hist' = Append(hist, rec) /\ steps' = steps + 1

Init == w = InitWorld(Cfg) /\ last = NoLast /\ hist = <<>> /\ steps = 0

Create ==
    \E ids \in IdSeqs, ra \in RelArgs(w), n \in 1..2 :
        /\ Len(w.iss) + n <= MaxH
        /\ LET hasRel == ra.hasRel rel == ra.rel hasTgt == ra.hasTgt t == ra.t
               why == CreateWhy(w, ids, hasRel, rel, hasTgt, t, n)
               hs == NextHandles(w, n)
               w2 == IF why = "" THEN CreateStep(w, hs, ids, <<>>, hasTgt, t) ELSE w
           IN /\ w' = w2
              /\ last' = L("Create", why, Range(hs), IF why = "" THEN CreateEvents(w2, hs, ids) ELSE {}, FALSE, t, hasTgt)
              /\ Log([HOp EXCEPT !.op = IF n = 1 THEN "BuilderNew" ELSE "NewBatch", !.api = IF n = 1 THEN "Builder.New" ELSE "Builder.NewBatch",
                                 !.ids = ids, !.hasRel = hasRel, !.rel = rel, !.hasTgt = hasTgt, !.tgt = HRef(t), !.n = n])

Remove ==
    \E h \in Handles(w) :
        LET why == RemoveWhy(w, h) IN
        /\ w' = IF why = "" THEN RemoveStep(w, h) ELSE w
        /\ last' = L("Remove", why, {h}, IF why = "" THEN { RemoveEvent(w, h) } ELSE {}, TRUE, Zero, FALSE)
        /\ Log([HOp EXCEPT !.op = "RemoveEntity", !.e = HRef(h)])

Exchange ==
    \E h \in Handles(w), add \in IdSeqs, rem \in IdSeqs, ra \in RelArgs(w) :
        /\ LET hasRel == ra.hasRel rel == ra.rel hasTgt == ra.hasTgt t == ra.t
               why == ExchangeWhy(w, h, add, rem, hasRel, rel, hasTgt, t)
               w2 == IF why = "" THEN ExchangeStep(w, h, add, rem, hasRel /\ hasTgt, t, <<>>) ELSE w
           IN /\ w' = w2
              /\ last' = [L("Exchange", why, {h}, IF why = "" THEN ExchangeEvents(w, w2, h, add, rem) ELSE {}, TRUE,
                            t, hasRel /\ hasTgt) EXCEPT !.add = add, !.rem = rem]
              /\ Log([HOp EXCEPT !.op = "Exchange", !.api = IF hasRel THEN (IF rem = <<>> THEN "Builder.Add" ELSE "Relations.Exchange") ELSE "World.Exchange",
                                 !.e = HRef(h), !.add = add, !.rem = rem, !.hasRel = hasRel, !.rel = rel, !.hasTgt = hasTgt, !.tgt = HRef(t)])

SetVal ==
    \E h \in Handles(w), c \in Comps, v \in Vals :
        LET why == SetWhy(w, h, c) IN
        /\ w' = IF why = "" THEN SetStep(w, h, c, v) ELSE w
        /\ last' = [L("Set", why, {h}, {}, TRUE, Zero, FALSE) EXCEPT !.structural = FALSE]
        /\ Log([HOp EXCEPT !.op = "Set", !.api = "World.Set", !.e = HRef(h), !.c = c, !.v = v])

SetRel ==
    \E h \in Handles(w), rel \in Comps, t \in Targets(w) :
        LET why == SetRelWhy(w, h, rel, t) IN
        /\ w' = IF why = "" THEN SetRelStep(w, h, t) ELSE w
        /\ last' = L("SetRel", why, {h}, IF why = "" THEN SetRelEvents(w, h, rel, t) ELSE {}, TRUE, t, TRUE)
        /\ Log([HOp EXCEPT !.op = "SetRelation", !.e = HRef(h), !.rel = rel, !.tgt = HRef(t)])

BatchExchange ==
    \E f \in BatchFilters(w), add \in IdSeqs1, rem \in IdSeqs1, ra \in BatchRelArgs(w) :
        /\ LET hasRel == ra.hasRel rel == ra.rel t == ra.t
               up == BatchExUpWhy(w, f, add, rem, hasRel, t)
               M == BatchSet(w, f)
               why == IF up # "" THEN up
                      ELSE IF BatchExAllLegal(w, M, add, rem, hasRel, rel, t) \/ (add = <<>> /\ rem = <<>>) THEN ""
                      ELSE "partial"
               w2 == IF why = "" THEN BatchExStep(w, M, add, rem, hasRel, t) ELSE w
           IN /\ why # "partial"      \* outcome unspecified for batch calls: not explored
              /\ w' = w2
              /\ last' = [L("BatchExchange", why, M, IF why = "" THEN BatchExEvents(w, w2, M, add, rem) ELSE {}, FALSE,
                            t, hasRel)
                          EXCEPT !.add = add, !.rem = rem, !.hasRel = hasRel, !.rel = rel]
              /\ Log([HOp EXCEPT !.op = "BatchExchange", !.api = IF hasRel THEN "Relations.ExchangeBatch" ELSE "Batch.Exchange",
                                 !.add = add, !.rem = rem, !.hasRel = hasRel, !.rel = rel, !.tgt = HRef(t)] @@ [f |-> HFJ(f)])

BatchSetRel ==
    \E f \in BatchFilters(w), rel \in Rels, t \in Targets(w) :
        LET up == BatchSetRelUpWhy(w, f, t)
            M == BatchSet(w, f)
            why == IF up # "" THEN up ELSE IF \A h \in M : RelOf(w, w.comps[h]) = rel THEN "" ELSE "partial"
        IN /\ why # "partial"
           /\ w' = IF why = "" THEN BatchSetRelStep(w, M, t) ELSE w
           /\ last' = [L("BatchSetRel", why, M, IF why = "" THEN BatchSetRelEvents(w, M, rel, t) ELSE {}, FALSE, t, TRUE)
                       EXCEPT !.rel = rel]
           /\ Log([HOp EXCEPT !.op = "BatchSetRelation", !.api = "Relations.SetBatch", !.rel = rel, !.tgt = HRef(t)] @@ [f |-> HFJ(f)])

BatchRemove ==
    \E f \in BatchFilters(w) :
        LET why == BatchRemoveUpWhy(w, f)
            M == BatchSet(w, f)
        IN /\ w' = IF why = "" THEN BatchRemoveStep(w, M) ELSE w
           /\ last' = L("BatchRemove", why, M, IF why = "" THEN BatchRemoveEvents(w, M) ELSE {}, FALSE, Zero, FALSE)
           /\ Log([HOp EXCEPT !.op = "BatchRemove"] @@ [f |-> HFJ(f)])

Reset ==
    LET why == LockWhy(w) IN
    /\ w' = IF why = "" THEN ResetStep(w) ELSE w
    /\ last' = L("Reset", why, {}, {}, FALSE, Zero, FALSE)
    /\ Log([HOp EXCEPT !.op = IF why = "" THEN "ResetEndsHistory" ELSE "Reset"])

OpenQ ==
    /\ Cardinality(DOMAIN w.open) < MaxOpen
    /\ w.nq < MaxOpen + 1
    /\ \E f \in Filters(w) :
         /\ w' = OpenHeld(w, <<>>, {})
         /\ last' = [NoLast EXCEPT !.op = "Open"]
         /\ Log([HOp EXCEPT !.op = "OpenQuery"] @@ [f |-> HFJ(f)])

CloseQ ==
    \E q \in DOMAIN w.open :
        /\ w' = CloseHeld(w, q)
        /\ last' = [NoLast EXCEPT !.op = "Close"]
        /\ Log([HOp EXCEPT !.op = "QClose", !.qi = q])

Register ==
    /\ Len(w.regs) < MaxRegs
    /\ \E f \in RegFilters(w) :
         /\ w' = [w EXCEPT !.regs = Append(@, [f |-> f, live |-> TRUE])]
         /\ last' = [NoLast EXCEPT !.op = "Register"]
         /\ Log([HOp EXCEPT !.op = "Register"] @@ [f |-> HFJ(f)])

Unregister ==
    \E i \in DOMAIN w.regs :
        /\ w.regs[i].live
        /\ w' = [w EXCEPT !.regs[i].live = FALSE]
        /\ last' = [NoLast EXCEPT !.op = "Unregister"]
        /\ Log([HOp EXCEPT !.op = "Unregister", !.reg = i - 1])

Next == Create \/ Remove \/ Exchange \/ SetVal \/ SetRel \/ BatchExchange \/ BatchSetRel \/ BatchRemove
        \/ Reset \/ OpenQ \/ CloseQ \/ Register \/ Unregister

Spec == Init /\ [][Next]_vars

View == w

---------------------------------------------------------------------------
(* Invariants *)

StepBound == steps <= MaxEmit

(* Fault cover: every history of at most MaxEmit+1 calls that ends in an ILLEGAL call (any illegal-argument class, *)
(* from every world reachable within MaxEmit calls) is printed as a symbolic schedule.  Always TRUE.               *)
EmitFaultPath == (steps <= MaxEmit + 1 /\ last.why # "" /\ \A i \in DOMAIN hist : hist[i].op # "ResetEndsHistory")
                 => PrintT(<<"PATH", ToJson(hist)>>)

(* C01/C05: well-formed world. *)
WellFormed ==
    /\ DOMAIN w.comps = w.alive /\ DOMAIN w.vals = w.alive /\ DOMAIN w.tgt = w.alive
    /\ w.alive \subseteq Handles(w)
    /\ Zero \notin w.alive
    /\ \A h \in w.alive : DOMAIN w.vals[h] = w.comps[h] \cap Sized

(* C05: at most one relation component; a target needs a relation component; *)
(* targets are handles that were issued (alive or dead by now) or zero.      *)
OneRelation == \A h \in w.alive : Cardinality(w.comps[h] \cap Rels) <= 1
TargetNeedsRelation == \A h \in w.alive : w.tgt[h] # Zero => HasRel(w, h)
TargetWasIssued == \A h \in w.alive : w.tgt[h] \in Targets(w)

(* C05: a relation filter selects exactly the entities with that target (among those with the relation). *)
RelFilterSelects ==
    \A r \in Rels, t \in Targets(w) :
        QuerySet(w, RelF(F("all", <<r>>), t)) = { h \in w.alive : r \in w.comps[h] /\ w.tgt[h] = t }

(* C07: a registered filter selects what its original selects (by definition of Core; checked anyway). *)
CachedSelectsSame ==
    \A i \in DOMAIN w.regs : w.regs[i].live =>
        QuerySet(w, CachedF(i - 1, w.regs[i].f)) = QuerySet(w, w.regs[i].f)

---------------------------------------------------------------------------
(* Action properties *)

Changed(x, y, h) ==
    \/ (h \in x.alive) # (h \in y.alive)
    \/ h \in x.alive /\ h \in y.alive /\ (x.comps[h] # y.comps[h] \/ x.tgt[h] # y.tgt[h])

Same(x, y, h) ==
    /\ h \in x.alive /\ h \in y.alive
    /\ x.comps[h] = y.comps[h] /\ x.vals[h] = y.vals[h] /\ x.tgt[h] = y.tgt[h]

(* C10: an illegal call changes nothing. *)
FaultNoChange == last'.why # "" => w' = w

(* C09: while locked every structural call is illegal. *)
LockedRejects == (Locked(w) /\ last'.structural) => last'.why # ""

(* C01/C05/C06: entities not addressed by a call are untouched (except by Reset). *)
OthersUntouched ==
    last'.op \notin {"Reset", "none"} =>
        \A h \in w.alive \ last'.ents : Same(w, w', h)

(* C06: removing an entity - target or not, self-targeting or not - is legal whenever unlocked, *)
(* and entities that point to it keep reporting it.                                             *)
RemoveNeverFails ==
    last'.op = "Remove" /\ ~Locked(w) /\ last'.ents \subseteq w.alive => last'.why = ""
ChildrenKeepDeadTarget ==
    last'.op \in {"Remove", "BatchRemove"} /\ last'.why = "" =>
        \A h \in w'.alive : w'.tgt[h] = w.tgt[h]

(* C01: added components read zero, kept components keep their value. *)
NewCompsZero ==
    \A h \in w.alive \cap w'.alive :
        \A c \in w'.comps[h] \cap Sized :
            IF c \in w.comps[h] THEN (last'.op = "Set" \/ w'.vals[h][c] = w.vals[h][c]) ELSE w'.vals[h][c] = 0
NewEntitiesZero ==
    \A h \in w'.alive \ w.alive : \A c \in DOMAIN w'.vals[h] : w'.vals[h][c] = 0

(* C05: whenever a target changes (or a new entity gets one), it is zero or alive at that moment. *)
AssignedTargetAlive ==
    \A h \in w'.alive :
        (h \notin w.alive \/ w'.tgt[h] # w.tgt[h]) => (w'.tgt[h] = Zero \/ w'.tgt[h] \in w.alive)

(* C05: the target rule.  With a target argument the entity gets exactly that target; without one the   *)
(* target is retained unless the relation component is removed, re-added or swapped (then it is zero).  *)
TargetRule ==
    /\ (last'.op \in {"Exchange", "BatchExchange"} /\ last'.why = "" /\ ~last'.hasTgtArg) =>
          \A h \in last'.ents \cap w'.alive :
              LET r0 == RelOf(w, w.comps[h]) r1 == RelOf(w, w'.comps[h]) IN
              IF r1 = -1 THEN w'.tgt[h] = Zero
              ELSE IF r0 = r1 /\ r1 \notin Range(last'.rem) THEN w'.tgt[h] = w.tgt[h]
              ELSE w'.tgt[h] = Zero
    /\ (last'.op \in {"Exchange", "BatchExchange", "SetRel", "BatchSetRel", "Create"} /\ last'.why = "" /\ last'.hasTgtArg) =>
          \A h \in last'.ents \cap w'.alive : w'.tgt[h] = last'.tgtArg
    /\ (last'.op = "Create" /\ last'.why = "" /\ ~last'.hasTgtArg) =>
          \A h \in last'.ents : w'.tgt[h] = Zero

(* C11: exactly one event per changed entity, none for unchanged ones, and its content is the difference. *)
EventOK(ev) ==
    LET h == ev.e
        was == h \in w.alive
        is == h \in w'.alive
        old == IF was THEN w.comps[h] ELSE {}
        new == IF is THEN w'.comps[h] ELSE {}
        oldRel == IF was THEN RelOf(w, old) ELSE -1
        newRel == IF is THEN RelOf(w, new) ELSE -1
        oldT == IF was THEN w.tgt[h] ELSE Zero
        newT == IF is THEN w'.tgt[h] ELSE Zero
    IN /\ ev.added = new \ old /\ ev.removed = old \ new
       /\ ev.oldRel = oldRel /\ ev.newRel = newRel /\ ev.oldTgt = oldT
       /\ HasBit(ev.bits, EvCreated) = (~was /\ is)
       /\ HasBit(ev.bits, EvRemoved) = (was /\ ~is)
       /\ HasBit(ev.bits, EvRelChanged) = (oldRel # newRel)
       /\ HasBit(ev.bits, EvTargetChanged) = (oldRel # newRel \/ oldT # newT)
       /\ (ev.added # {} => HasBit(ev.bits, EvCompAdded))
       /\ (ev.removed # {} => HasBit(ev.bits, EvCompRemoved))
       /\ ev.addedIDs \cap old = {} /\ ev.removedIDs \subseteq old

EventsTruthful == \A ev \in last'.evs : EventOK(ev)

EventsComplete ==
    last'.op \notin {"Reset", "none", "Open", "Close", "Register", "Unregister"} =>
        /\ \A h \in Handles(w') \cup Handles(w) :
              Changed(w, w', h) <=> (\E ev \in last'.evs : ev.e = h)
        /\ \A e1, e2 \in last'.evs : e1.e = e2.e => e1 = e2

(* C08: a batch call equals the single calls applied one by one, in any order. *)
RECURSIVE FoldEx(_, _, _, _, _, _)
FoldEx(x, M, add, rem, hasRel, t) ==
    IF M = {} THEN x
    ELSE LET h == CHOOSE m \in M : TRUE IN
         FoldEx(ExchangeStep(x, h, add, rem, hasRel, t, <<>>), M \ {h}, add, rem, hasRel, t)

RECURSIVE FoldSetRel(_, _, _)
FoldSetRel(x, M, t) ==
    IF M = {} THEN x
    ELSE LET h == CHOOSE m \in M : TRUE IN FoldSetRel(SetRelStep(x, h, t), M \ {h}, t)

RECURSIVE FoldRemove(_, _)
FoldRemove(x, M) ==
    IF M = {} THEN x ELSE LET h == CHOOSE m \in M : TRUE IN FoldRemove(RemoveStep(x, h), M \ {h})

BatchIsFold ==
    /\ (last'.op = "BatchExchange" /\ last'.why = "") =>
          /\ w' = FoldEx(w, last'.ents, last'.add, last'.rem, last'.hasRel, last'.tgtArg)
          /\ \A h \in last'.ents :   \* each single call is legal on its own
                ExchangeWhy(w, h, last'.add, last'.rem, last'.hasRel, last'.rel, last'.hasRel, last'.tgtArg) = ""
                \/ (last'.add = <<>> /\ last'.rem = <<>>)
    /\ (last'.op = "BatchSetRel" /\ last'.why = "") =>
          /\ w' = FoldSetRel(w, last'.ents, last'.tgtArg)
          /\ \A h \in last'.ents : SetRelWhy(w, h, last'.rel, last'.tgtArg) = ""
    /\ (last'.op = "BatchRemove" /\ last'.why = "") => w' = FoldRemove(w, last'.ents)

(* C15: Reset gives the initial world, keeping registrations. *)
ResetGivesInit ==
    (last'.op = "Reset" /\ last'.why = "") =>
        w' = [InitWorld(Cfg) EXCEPT !.regs = w.regs, !.nq = w.nq, !.gfs = w.gfs]

ActionProps ==
    /\ FaultNoChange /\ LockedRejects /\ OthersUntouched /\ RemoveNeverFails /\ ChildrenKeepDeadTarget
    /\ NewCompsZero /\ NewEntitiesZero /\ AssignedTargetAlive /\ TargetRule
    /\ EventsTruthful /\ EventsComplete /\ BatchIsFold /\ ResetGivesInit

AP == [][ActionProps]_vars

=============================================================================
