------------------------------ MODULE MCArche ------------------------------
(***************************************************************************)
(* Exhaustive model checking of layer 2 (Arche.tla, the implementation-    *)
(* shaped state machine) against layer 1 (ArcheAbs.tla): every operation   *)
(* with every argument tuple from every reachable hidden state of a small  *)
(* universe.  Checked in every state: the structural invariants of the     *)
(* hidden state, the cache invariants, and REFINEMENT - the view derived   *)
(* from tables, rows and the entity pool equals the abstract world that    *)
(* evolves by the layer-1 semantics; layer 2 panics exactly where layer 1  *)
(* says the call is illegal.  This is where algorithmic slips show: a      *)
(* forgotten index fix-up after swap-remove, a target carried over a       *)
(* relation swap, a stale cache entry after table reuse, a table retired   *)
(* twice.                                                                  *)
(***************************************************************************)
EXTENDS ArcheAbs, Arche, Json

CONSTANTS MaxId,     \* entity ids 1..MaxId
          MaxGen,    \* recycling depth
          Comps, Rels, Sized,
          MaxRegs,
          CapIncC,
          MaxSteps,  \* bound on the length of histories (breadth-first: every state is reached by a shortest history)
          Ops,       \* names of the operations explored
          EmitEvery  \* EmitRelPath prints about one in EmitEvery qualifying histories

VARIABLES s, g, last, steps, hist, base
vars == <<s, g, last, steps, hist, base>>

Cfg1 == [comps |-> Comps, rels |-> Rels, sized |-> Sized, nres |-> 0, totalBits |-> 256,
         lst |-> [on |-> TRUE, S |-> 63, C |-> {}, hasC |-> FALSE], isDispatch |-> FALSE, subs |-> <<>>, capInc |-> 1, relCapInc |-> 0]
Cfg2 == [rels |-> Rels, sized |-> Sized, capInc |-> CapIncC, relCapInc |-> 0]

F(k, ids) == [k |-> k, ids |-> ids, exc |-> <<>>, tgt |-> Zero, reg |-> -1, subs |-> <<>>]
RelF(inner, t) == [k |-> "rel", ids |-> <<>>, exc |-> <<>>, tgt |-> t, reg |-> -1, subs |-> <<inner>>]
CachedF(r, orig) == [k |-> "cached", ids |-> <<>>, exc |-> <<>>, tgt |-> Zero, reg |-> r, subs |-> <<orig>>]

Handles == Range(g.iss)
Targets == {Zero} \cup Handles
IdSeqs == { <<>> } \cup { <<c>> : c \in Comps } \cup { <<pr[1], pr[2]>> : pr \in { q \in Comps \X Comps : q[1] < q[2] } }
IdSeqs1 == { <<>> } \cup { <<c>> : c \in Comps }
AnyRel == CHOOSE r \in Rels : TRUE
RelArgs ==
    { [hasRel |-> FALSE, rel |-> AnyRel, hasTgt |-> FALSE, t |-> Zero] }
    \cup { [hasRel |-> TRUE, rel |-> rt[1], hasTgt |-> TRUE, t |-> rt[2]] : rt \in Rels \X Targets }
PlainFilters == { F("all", <<>>) } \cup { F("all", <<c>>) : c \in Comps }
                \cup { RelF(F("all", <<r>>), t) : r \in Rels, t \in Targets }
BatchFilters ==
    [ f : PlainFilters, fid : {-1} ]
    \cup { [f |-> g.regs[i].f, fid |-> s.cache[CHOOSE k \in DOMAIN s.cache : s.cache[k].fid = i - 1].fid]
           : i \in { j \in DOMAIN g.regs : g.regs[j].live } }
AbsF(bf) == IF bf.fid = -1 THEN bf.f ELSE CachedF(bf.fid, bf.f)

(* Symbolic schedule (the JSON format of the Go harness): entities are referenced by issuance index. *)
Ref(h) == IF h = Zero THEN -1 ELSE base + (CHOOSE i \in DOMAIN g.iss : g.iss[i] = h) - 1
RECURSIVE FJ(_)
FJ(f) == IF f.k = "rel" THEN [k |-> "rel", ids |-> <<>>, subs |-> << FJ(f.subs[1]) >>, tgt |-> Ref(f.tgt), reg |-> 0]
         ELSE [k |-> f.k, ids |-> f.ids, subs |-> <<>>, tgt |-> -1, reg |-> 0]
BFJ(bf) == IF bf.fid = -1 THEN FJ(bf.f) ELSE [k |-> "cached", ids |-> <<>>, subs |-> <<>>, tgt |-> -1, reg |-> bf.fid]
OpBase == [op |-> "", api |-> "", ids |-> <<>>, add |-> <<>>, rem |-> <<>>, e |-> 0, tgt |-> -1, hasRel |-> FALSE, rel |-> 0,
           hasTgt |-> FALSE, n |-> 0, c |-> 0, v |-> 0, reg |-> 0, qi |-> 0, r |-> 0, w |-> 0]

Init == s = LInit(Cfg2) /\ g = InitWorld(Cfg1) /\ last = [op |-> "init", l1 |-> "", l2ok |-> TRUE] /\ steps = 0
        /\ hist = <<>> /\ base = 0

RoomFor(n) == Len(s.pool.ents) - 1 - s.pool.avail + n <= MaxId /\ Len(s.pool.ents) - 1 + (IF n > s.pool.avail THEN n - s.pool.avail ELSE 0) <= MaxId
GenOK == \A i \in DOMAIN s.pool.ents : s.pool.ents[i][2] <= MaxGen

Create ==
    \E ids \in IdSeqs, ra \in RelArgs, n \in 1..2, batch \in BOOLEAN :
        /\ RoomFor(n) /\ (~batch => n = 1)
        /\ LET why == CreateWhy(g, ids, ra.hasRel, ra.rel, ra.hasTgt, ra.t, n)
               r == LCreate(s, ids, [c \in {} |-> 0], ra.hasTgt, ra.rel, ra.t, n, batch)
           IN /\ s' = r.s
              /\ g' = IF why = "" /\ r.ok THEN CreateStep(g, r.hs, ids, <<>>, ra.hasTgt, ra.t) ELSE g
              /\ last' = [op |-> "Create", l1 |-> why, l2ok |-> r.ok]
              /\ hist' = Append(hist, [OpBase EXCEPT !.op = IF batch THEN "NewBatch" ELSE "BuilderNew",
                                                      !.api = IF batch THEN "Builder.NewBatch" ELSE "Builder.New",
                                                      !.ids = ids, !.hasRel = ra.hasRel, !.rel = ra.rel, !.hasTgt = ra.hasTgt,
                                                      !.tgt = Ref(ra.t), !.n = n])
              /\ base' = base

Remove ==
    \E h \in g.alive :
        /\ h[2] < MaxGen
        /\ s' = LRemove(s, h) /\ g' = RemoveStep(g, h)
        /\ last' = [op |-> "Remove", l1 |-> "", l2ok |-> TRUE]
        /\ hist' = Append(hist, [OpBase EXCEPT !.op = "RemoveEntity", !.e = Ref(h)]) /\ base' = base

Exchange ==
    \E h \in g.alive, add \in IdSeqs, rem \in IdSeqs, ra \in RelArgs :
        LET relGiven == ra.hasRel /\ ra.hasTgt
            why == ExchangeWhy(g, h, add, rem, ra.hasRel, ra.rel, ra.hasTgt, ra.t)
            maskOK == NoDup(rem) /\ Range(rem) \subseteq g.comps[h] /\ NoDup(add)
                      /\ (Range(add) \cap (g.comps[h] \ Range(rem))) = {}   \* getExchangeMask passes
            noop == add = <<>> /\ rem = <<>>
        IN /\ maskOK /\ ~noop
           /\ LET r == LExchange(s, h, add, rem, relGiven, ra.rel, ra.t, [c \in {} |-> 0]) IN
              /\ s' = r.s
              /\ g' = IF why = "" /\ r.ok THEN ExchangeStep(g, h, add, rem, relGiven, ra.t, <<>>) ELSE g
              /\ last' = [op |-> "Exchange", l1 |-> why, l2ok |-> r.ok]
              /\ hist' = Append(hist, [OpBase EXCEPT !.op = "Exchange", !.api = IF relGiven THEN "Relations.Exchange" ELSE "World.Exchange",
                                                      !.e = Ref(h), !.add = add, !.rem = rem, !.hasRel = relGiven, !.rel = ra.rel,
                                                      !.hasTgt = relGiven, !.tgt = Ref(ra.t)])
              /\ base' = base

SetVal ==
    \E h \in g.alive, c \in Sized :
        /\ c \in g.comps[h]
        /\ s' = LSet(s, h, c, 1) /\ g' = SetStep(g, h, c, 1)
        /\ last' = [op |-> "Set", l1 |-> "", l2ok |-> TRUE]
        /\ hist' = Append(hist, [OpBase EXCEPT !.op = "Set", !.api = "World.Set", !.e = Ref(h), !.c = c, !.v = 1]) /\ base' = base

SetRel ==
    \E h \in g.alive, t \in Targets :
        /\ SetRelWhy(g, h, RelOf(g, g.comps[h]), t) = ""
        /\ s' = LSetRelation(s, h, t) /\ g' = SetRelStep(g, h, t)
        /\ last' = [op |-> "SetRel", l1 |-> "", l2ok |-> TRUE]
        /\ hist' = Append(hist, [OpBase EXCEPT !.op = "SetRelation", !.e = Ref(h), !.rel = RelOf(g, g.comps[h]), !.tgt = Ref(t)])
        /\ base' = base

BatchExchange ==
    \E bf \in BatchFilters, add \in IdSeqs1, rem \in IdSeqs1, ra \in RelArgs :
        LET relGiven == ra.hasRel /\ ra.hasTgt
            M == QuerySet(g, AbsF(bf))
            up == BatchExUpWhy(g, AbsF(bf), add, rem, relGiven, ra.t)
        IN /\ up = "" /\ ~(add = <<>> /\ rem = <<>>)
           /\ BatchExAllLegal(g, M, add, rem, relGiven, ra.rel, ra.t)
           /\ LET r == LBatchExchange(s, bf.f, bf.fid, add, rem, relGiven, ra.rel, ra.t) IN
              /\ s' = r.s
              /\ g' = BatchExStep(g, M, add, rem, relGiven, ra.t)
              /\ last' = [op |-> "BatchExchange", l1 |-> "", l2ok |-> r.ok]
              /\ hist' = Append(hist, [OpBase EXCEPT !.op = "BatchExchange",
                                                      !.api = IF relGiven THEN "Relations.ExchangeBatch" ELSE "Batch.Exchange",
                                                      !.add = add, !.rem = rem, !.hasRel = relGiven, !.rel = ra.rel, !.tgt = Ref(ra.t)]
                                       @@ [f |-> BFJ(bf)])
              /\ base' = base

BatchSetRel ==
    \E bf \in BatchFilters, rel \in Rels, t \in Targets :
        LET M == QuerySet(g, AbsF(bf)) IN
        /\ BatchSetRelUpWhy(g, AbsF(bf), t) = "" /\ (\A h \in M : RelOf(g, g.comps[h]) = rel)
        /\ s' = LBatchSetRelation(s, bf.f, bf.fid, t)
        /\ g' = BatchSetRelStep(g, M, t)
        /\ last' = [op |-> "BatchSetRel", l1 |-> "", l2ok |-> TRUE]
        /\ hist' = Append(hist, [OpBase EXCEPT !.op = "BatchSetRelation", !.api = "Batch.SetRelation", !.rel = rel, !.tgt = Ref(t)]
                                 @@ [f |-> BFJ(bf)])
        /\ base' = base

BatchRemove ==
    \E bf \in BatchFilters :
        LET M == QuerySet(g, AbsF(bf)) IN
        /\ \A h \in M : h[2] < MaxGen
        /\ s' = LBatchRemove(s, bf.f, bf.fid)
        /\ g' = BatchRemoveStep(g, M)
        /\ last' = [op |-> "BatchRemove", l1 |-> "", l2ok |-> TRUE]
        /\ hist' = Append(hist, [OpBase EXCEPT !.op = "BatchRemove"] @@ [f |-> BFJ(bf)]) /\ base' = base

Reset ==
    /\ s' = LReset(s) /\ g' = ResetStep(g)
    /\ last' = [op |-> "Reset", l1 |-> "", l2ok |-> TRUE]
    /\ hist' = Append(hist, [OpBase EXCEPT !.op = "Reset"]) /\ base' = base + Len(g.iss)

Register ==
    /\ Len(g.regs) < MaxRegs
    /\ \E f \in PlainFilters :
         /\ s' = LRegister(s, f)
         /\ g' = [g EXCEPT !.regs = Append(@, [f |-> f, live |-> TRUE])]
         /\ last' = [op |-> "Register", l1 |-> "", l2ok |-> TRUE]
         /\ hist' = Append(hist, [OpBase EXCEPT !.op = "Register"] @@ [f |-> FJ(f)]) /\ base' = base

Unregister ==
    \E i \in DOMAIN g.regs :
        /\ g.regs[i].live
        /\ s' = LUnregister(s, i - 1)
        /\ g' = [g EXCEPT !.regs[i].live = FALSE]
        /\ last' = [op |-> "Unregister", l1 |-> "", l2ok |-> TRUE]
        /\ hist' = Append(hist, [OpBase EXCEPT !.op = "Unregister", !.reg = i - 1]) /\ base' = base

(* Ops: the operations a configuration explores ("focused" covers go deeper with fewer operations). *)
On(name) == name \in Ops
Next == /\ (\/ (On("Create") /\ Create) \/ (On("Remove") /\ Remove) \/ (On("Exchange") /\ Exchange) \/ (On("SetVal") /\ SetVal)
            \/ (On("SetRel") /\ SetRel) \/ (On("BatchExchange") /\ BatchExchange) \/ (On("BatchSetRel") /\ BatchSetRel)
            \/ (On("BatchRemove") /\ BatchRemove) \/ (On("Reset") /\ Reset) \/ (On("Register") /\ Register)
            \/ (On("Unregister") /\ Unregister))
        /\ steps' = steps + 1

Spec == Init /\ [][Next]_vars

View == <<s, g>>
Bound == GenOK /\ steps <= MaxSteps

---------------------------------------------------------------------------
(* Transition cover: print every history of length MaxSteps+1 (= every transition out of every state reached  *)
(* within MaxSteps steps, with a shortest history to that state) as a symbolic schedule for the Go harness.   *)
(* Always TRUE.                                                                                                *)
EmitPath == steps = MaxSteps + 1 => PrintT(<<"PATH", ToJson(hist)>>)

(* Simulation mode (tlc -simulate): TLC evaluates invariants on every candidate successor, so a deep random walk would *)
(* print hundreds of one-step extensions of the same prefix; print about one in EmitEvery of them.  Always TRUE.        *)
EmitSome == (steps = MaxSteps + 1 /\ RandomElement(1..40) = 1) => PrintT(<<"PATH", ToJson(hist)>>)

(* Focused cover: only histories that end in a state under relation stress - some entity points to a dead target, or a *)
(* relation node has a retired table - the states in which a slip in table retirement / reuse / lookup shows.         *)
RelStress == \/ \E h \in g.alive : g.tgt[h] # Zero /\ g.tgt[h] \notin g.alive
             \/ \E n \in DOMAIN s.nodes : s.nodes[n].free # <<>>
EmitRelPath == (steps = MaxSteps + 1 /\ RelStress /\ RandomElement(1..EmitEvery) = 1) => PrintT(<<"PATH", ToJson(hist)>>)

Struct == StructInv(s)
Flags == FlagInv(s)
CacheOK == CacheInv(s)

(* the view derived from the hidden state is the abstract world *)
Refines ==
    /\ LAliveSet(s) = g.alive
    /\ s.pool = s.pool
    /\ \A h \in g.alive :
          /\ LComps(s, h) = g.comps[h]
          /\ LVals(s, h) = g.vals[h]
          /\ LTarget(s, h) = g.tgt[h]

(* every handle the pool issues is fresh in the sense of layer 1 (C02) *)
IssuedOnce == NoDup(g.iss) /\ Zero \notin Range(g.iss)

(* layer 2 panics exactly where layer 1 declares the call illegal *)
PanicAgrees == last.l2ok = (last.l1 = "")

(* a registered filter lists tables whose rows are exactly the abstract query set (C07) *)
CacheSelects ==
    \A i \in DOMAIN g.regs : g.regs[i].live =>
        LET e == s.cache[CHOOSE k \in DOMAIN s.cache : s.cache[k].fid = i - 1]
            ents == UNION { { Tbl(s, e.list[k][1], e.list[k][2]).rows[r].e : r \in DOMAIN Tbl(s, e.list[k][1], e.list[k][2]).rows }
                            : k \in DOMAIN e.list }
        IN OpenRelCase(g, g.regs[i].f) \/ ents = QuerySet(g, g.regs[i].f)
=============================================================================
