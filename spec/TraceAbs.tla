----------------------------- MODULE TraceAbs -----------------------------
(***************************************************************************)
(* Trace validation of recorded executions of the real ecs.World against   *)
(* layer 1 (ArcheAbs).  The trace (ndjson, one line per public-API call)   *)
(* is produced by /verif/harness.  A ghost abstract world evolves by the   *)
(* specification only, using the logged ARGUMENTS (and the handles a       *)
(* creation call returned); everything else that was logged - outcome,     *)
(* return values, events, the full observable projection, query panels,    *)
(* registered-filter sweeps - is CHECKED against the ghost.  Every check   *)
(* belongs to a listed property; failed checks are accumulated in `viol`   *)
(* and printed at the end of the trace.                                    *)
(***************************************************************************)
EXTENDS ArcheAbs, Arche, Json, IOUtils, SequencesExt

Trace == ndJsonDeserialize(IOEnv.TRACE)

(* STRICT=1: do not skip relation filters whose component part also matches entities without *)
(* relation component (known finding E17); used for the directed scenario only.               *)
Strict == "STRICT" \in DOMAIN IOEnv /\ IOEnv.STRICT = "1"
OpenRel(w, f) == ~Strict /\ OpenRelCase(w, f)

VARIABLES l, g, viol, nchk, prev

vars == <<l, g, viol, nchk, prev>>

Chk(prop, name, ok) == <<prop, name, ok>>

(* A check that applies to several properties. *)
ChkN(props, name, ok) == [i \in 1..Len(props) |-> <<props[i], name, ok>>]

---------------------------------------------------------------------------
(* Helpers on logged data *)

Pairs(s) == { <<s[i][1], s[i][2]>> : i \in DOMAIN s }

CfgOf(a) ==
    [ comps |-> { a.comps[i].id : i \in DOMAIN a.comps },
      rels  |-> { a.comps[i].id : i \in { j \in DOMAIN a.comps : a.comps[j].rel } },
      sized |-> { a.comps[i].id : i \in { j \in DOMAIN a.comps : a.comps[j].sized } },
      nres  |-> a.nres,
      totalBits |-> a.totalBits,
      lst   |-> [on |-> a.listener, S |-> a.ls, C |-> Range(a.lc), hasC |-> a.lhasc],
      capInc |-> a.capInc, relCapInc |-> a.relCapInc,
      isDispatch |-> a.isDispatch,
      subs  |-> [i \in DOMAIN a.dispatch |-> [on |-> TRUE, S |-> a.dispatch[i].s, C |-> Range(a.dispatch[i].c),
                                               hasC |-> a.dispatch[i].hasc]] ]

PoolOf(lp) == [ents |-> lp.ents, next |-> lp.next, avail |-> lp.avail]

EntRec(obs, h) == obs.ents[CHOOSE i \in DOMAIN obs.ents : obs.ents[i].e = h]

(* Rebuild the entity part of the ghost from a logged observation. *)
FromObs(w, obs) ==
    LET A == { obs.ents[i].e : i \in DOMAIN obs.ents } IN
    [w EXCEPT !.alive = A,
              !.iss   = obs.issued,
              !.comps = [h \in A |-> Range(EntRec(obs, h).comps)],
              !.vals  = [h \in A |-> LET P == Pairs(EntRec(obs, h).vals) IN
                                      [c \in { p[1] : p \in P } |-> (CHOOSE p \in P : p[1] = c)[2]]],
              !.tgt   = [h \in A |-> EntRec(obs, h).tgt],
              !.res   = LET P == Pairs(obs.res) IN
                        [r \in { p[1] : p \in P } |-> (CHOOSE p \in P : p[1] = r)[2]],
              !.pool  = PoolOf(obs.pool)]

---------------------------------------------------------------------------
(* Observation checks: the logged projection equals the ghost. *)

EntOK(w, x) ==
    /\ x.e \in w.alive
    /\ Range(x.comps) = w.comps[x.e]
    /\ x.alt = <<>>

EntValsOK(w, x) == x.e \in w.alive /\ Pairs(x.vals) = ValPairs(w, x.e)
EntTgtOK(w, x) == x.e \in w.alive /\ x.tgt = w.tgt[x.e] /\ x.rel = RelOf(w, w.comps[x.e])

ObsChecks(w, obs) ==
    LET E == obs.ents IN
    << Chk("C02", "obs-no-errors", obs.errs = <<>>),
       Chk("C02", "obs-issued", obs.issued = w.iss),
       Chk("C02", "obs-alive-flags",
            /\ Len(obs.alive) = Len(w.iss)
            /\ \A i \in DOMAIN obs.alive : obs.alive[i] = (w.iss[i] \in w.alive)),
       Chk("C02", "obs-alive-set", { E[i].e : i \in DOMAIN E } = w.alive /\ Len(E) = Cardinality(w.alive)),
       Chk("C02", "obs-zero-not-alive", ~obs.zeroAlive),
       Chk("C02", "obs-count", obs.used = Cardinality(w.alive)),
       Chk("C03", "obs-all-query", Range(obs.all) = w.alive /\ NoDup(obs.all)),
       Chk("C01", "obs-components", \A i \in DOMAIN E : EntOK(w, E[i])),
       Chk("C01", "obs-values", \A i \in DOMAIN E : EntValsOK(w, E[i])),
       Chk("C05", "obs-targets", \A i \in DOMAIN E : EntTgtOK(w, E[i])),
       Chk("C06", "obs-nothing-foreign-under-a-target",
           \A i \in DOMAIN E : E[i].rel # -1 => (EntOK(w, E[i]) /\ EntValsOK(w, E[i]) /\ EntTgtOK(w, E[i]))),
       Chk("C09", "obs-locked", obs.locked = Locked(w)),
       Chk("C20", "obs-resources", Pairs(obs.res) = { <<r, w.res[r]>> : r \in DOMAIN w.res }
                                    /\ Len(obs.res) = Cardinality(DOMAIN w.res)) >>

(* Entity pool: the dump is well-formed and describes the alive set (C02, C17); its evolution *)
(* follows EntityPool.tla exactly (hidden-state conformance, reported as DRIFT, no verdict).  *)
PoolChecks(ln, wPre, wPost) ==
    LET lp == PoolOf(ln.obs.pool)
        p0 == wPre.pool
        hs == ln.res.handles
        okOp == ~ln.res.panic
        pred ==
            CASE ln.op \in {"NewEntity", "NewEntityWith", "BuilderNew", "NewBatch"} /\ okOp ->
                    LET r == PGetN(p0, Len(hs)) IN r.p = lp /\ (ln.op = "NewBatch" \/ r.hs = hs) /\ Range(r.hs) = Range(hs)
              [] ln.op = "RemoveEntity" /\ okOp /\ ln.args.e \in wPre.alive -> PRecycle(p0, ln.args.e) = lp
              [] ln.op = "BatchRemove" /\ okOp -> PRecycledSome(p0, lp, wPre.alive \ wPost.alive)
              [] ln.op = "Reset" /\ okOp -> lp = PoolInit
              [] ln.op \in {"NewWorld", "Fork", "Load", "TwinEq"} -> TRUE
              [] OTHER -> lp = p0
    IN << Chk("C02", "pool-dump-readable", ln.obs.pool.ok),
          Chk("C17", "pool-dump-wellformed", PWellFormed(lp)),
          Chk("C02", "pool-dump-alive-set",
              PAliveSet(lp) = wPost.alive
              /\ { IF ln.obs.pool.alive[i] + 1 \in DOMAIN lp.ents THEN lp.ents[ln.obs.pool.alive[i] + 1] ELSE << -1, -1 >>
                    : i \in DOMAIN ln.obs.pool.alive } = wPost.alive),
          Chk("DRIFT", "pool-evolves-as-modelled", pred) >>

(* Registered filters select exactly what their originals select (C07). *)
SweepChecks(w, sw) ==
    LET ok(s) == OpenRel(w, s.f) \/
                 ( /\ s.cerr = "" /\ s.oerr = ""
                   /\ NoDup(s.cached) /\ NoDup(s.orig)
                   /\ Range(s.cached) = Range(s.orig) )
        okAbs(s) == OpenRel(w, s.f) \/ Range(s.orig) = QuerySet(w, s.f)
        okCached(s) == OpenRel(w, s.f) \/ (NoDup(s.cached) /\ Range(s.cached) = QuerySet(w, s.f))
    IN << Chk("C07", "sweep-cached-equals-original", \A i \in DOMAIN sw : ok(sw[i])),
          Chk("C03", "sweep-original-is-matchset", \A i \in DOMAIN sw : okAbs(sw[i])),
          Chk("C03", "sweep-registered-query-is-matchset-once", \A i \in DOMAIN sw : okCached(sw[i])),
          (* C05: a relation filter with target T - registered or not - selects exactly the entities with target T *)
          Chk("C05", "sweep-relation-filter-selects-its-target",
              \A i \in DOMAIN sw : Core(sw[i].f).k = "rel" => (okCached(sw[i]) /\ okAbs(sw[i]))),
          (* C06: storage retired and reused for another target - no entity shows up under a target it was not assigned *)
          (* to, through the original or the registered relation filter                                                 *)
          Chk("C06", "sweep-nothing-foreign-under-a-target",
              \A i \in DOMAIN sw : Core(sw[i].f).k = "rel" =>
                  (OpenRel(w, sw[i].f) \/ (Range(sw[i].cached) \cup Range(sw[i].orig)) \subseteq QuerySet(w, sw[i].f))) >>

---------------------------------------------------------------------------
(* Event checks *)

NormEv(ev) ==
    [e |-> ev.e, added |-> Range(ev.added), removed |-> Range(ev.removed),
     addedIDs |-> Range(ev.addedIDs), removedIDs |-> Range(ev.removedIDs),
     oldRel |-> ev.oldRel, newRel |-> ev.newRel, oldTgt |-> ev.oldTgt, bits |-> ev.bits]

(* Delivery-time facts.  wPre: world before the operation, wPost: after.   *)
FactsOK(wPre, wPost, ev) ==
    IF HasBit(ev.bits, EvRemoved)
    THEN /\ ev.alive /\ ev.locked
         /\ ev.e \in wPre.alive
         /\ Range(ev.mask) = wPre.comps[ev.e]
         /\ Pairs(ev.vals) = ValPairs(wPre, ev.e)
         /\ ev.tgtNow = wPre.tgt[ev.e]
    ELSE /\ ev.alive /\ ev.locked = Locked(wPost)
         /\ ev.e \in wPost.alive
         /\ Range(ev.mask) = wPost.comps[ev.e]
         /\ Pairs(ev.vals) = ValPairs(wPost, ev.e)
         /\ ev.tgtNow = wPost.tgt[ev.e]

EventChecks(wPre, wPost, logged, cores) ==
    LET cfg == wPost.cfg
        full == cfg.lst.on /\ cfg.lst.S = 63 /\ ~cfg.lst.hasC /\ ~cfg.isDispatch
        pc == IF full THEN "C11" ELSE "C12"
        lsts == IF cfg.isDispatch THEN cfg.subs ELSE << cfg.lst >>
        got(k) == { NormEv(logged[i]) : i \in { j \in DOMAIN logged : logged[j].sub = k - 1 } }
        cnt(k) == Cardinality({ j \in DOMAIN logged : logged[j].sub = k - 1 })
        exp(k) == IF cfg.isDispatch THEN { ev \in cores : DispatchDelivers(cfg.subs, k, ev) }
                  ELSE DeliveredTo(lsts[k], cores)
    IN << Chk(pc, "events-exactly-the-expected",
              /\ \A k \in DOMAIN lsts : got(k) = exp(k) /\ cnt(k) = Cardinality(exp(k))
              /\ \A i \in DOMAIN logged : logged[i].sub + 1 \in DOMAIN lsts),
          Chk("C11", "events-delivery-state", \A i \in DOMAIN logged : FactsOK(wPre, wPost, logged[i])),
          Chk("C09", "locked-during-delivery-rejects-changes",
              \A i \in DOMAIN logged : logged[i].probe # "ok"),
          Chk("C11", "events-inspectable", \A i \in DOMAIN logged : "inspectPanic" \notin DOMAIN logged[i]) >>

---------------------------------------------------------------------------
(* Query panels *)

(* generic QueryN.Get: position i holds the component of the i-th type parameter (nil if absent) *)
GetPosOK(w, h, gp) == \A i \in DOMAIN gp : gp[i] = (IF (i - 1) \in w.comps[h] THEN 1 ELSE 0)

PosOK(w, p) ==
    /\ ("getpos" \in DOMAIN p => GetPosOK(w, p.e, p.getpos))
    /\ p.e \in w.alive
    /\ Range(p.comps) = w.comps[p.e]
    /\ p.alt = <<>>
    /\ Pairs(p.vals) = ValPairs(w, p.e)
    /\ p.tgt = w.tgt[p.e]
    /\ p.rel = RelOf(w, w.comps[p.e])

StepSize(s) == IF s = 0 THEN 1 ELSE s

RECURSIVE Cum(_, _)
Cum(steps, j) == IF j = 0 THEN 0 ELSE Cum(steps, j - 1) + StepSize(steps[j].s)

(* S: the set of entities the query must iterate. *)
PanelChecks1(w, S, p, prop) ==
    LET at == p.at
        st == p.steps
        n  == Len(st)
        stepOK(j) ==
            IF st[j].s < 0 THEN j = n
            ELSE LET c == Cum(st, j) IN
                 /\ st[j].ok = (c <= p.count)
                 /\ st[j].ok => (c \in DOMAIN at /\ st[j].pos.e = at[c] /\ PosOK(w, st[j].pos))
                 /\ ~st[j].ok => j = n
    IN << Chk(prop, "panel-count", p.count = Cardinality(S) /\ p.count2 = p.count),
          Chk(prop, "panel-entityat", p.atErr = "" /\ Len(at) = p.count /\ NoDup(at) /\ Range(at) = S),
          Chk("C10", "panel-entityat-out-of-range-panics", p.atLoPanic /\ p.atHiPanic),
          Chk("C10", "panel-non-positive-step-panics-and-changes-nothing",
              "stepNonPosPanic" \notin DOMAIN p \/ (p.stepNonPosPanic /\ p.count3 = p.count)),
          Chk("C10", "panel-relation-of-other-component-panics",
              \A j \in 1..n : (st[j].s >= 0 /\ st[j].ok /\ "relBadPanic" \in DOMAIN st[j].pos) => st[j].pos.relBadPanic),
          Chk(prop, "panel-walk", p.walkErr = "" /\ n >= 1 /\ \A j \in 1..n : stepOK(j)) >>

(* The queries returned by batch operations are also subject to C03 (Count / EntityAt / Step agree). *)
PanelChecks(w, S, p, prop) ==
    IF prop = "C08" THEN PanelChecks1(w, S, p, "C08") \o PanelChecks1(w, S, p, "C03")
    ELSE PanelChecks1(w, S, p, prop)

---------------------------------------------------------------------------
(* Outcome *)

OpProps(op) ==
    CASE op \in {"NewEntity", "NewEntityWith", "BuilderNew", "NewBatch"} -> <<"C02", "C01">>
      [] op \in {"Exchange", "Assign", "Set", "Read"} -> <<"C01">>
      [] op \in {"SetRelation"} -> <<"C05">>
      [] op \in {"RemoveEntity"} -> <<"C06", "C02">>
      [] op \in {"BatchRemove"} -> <<"C06", "C08">>
      [] op \in {"BatchExchange", "BatchSetRelation"} -> <<"C08">>
      [] op \in {"Panel", "OpenQuery", "QNext", "QStep", "QClose", "QCount"} -> <<"C03">>
      [] op \in {"Register", "Unregister"} -> <<"C07">>
      [] op \in {"Reset"} -> <<"C15">>
      [] op \in {"ResAdd", "ResRemove", "ResGet"} -> <<"C20">>
      [] op \in {"Dump", "Load"} -> <<"C17">>
      [] op \in {"RegisterTypes"} -> <<"C16">>
      [] OTHER -> <<"C10">>

(* why: "" when legal; else "locked", "dead-target" or "args".             *)
OutcomeChecks(ln, why) ==
    LET p == ln.res.panic
        gen == "gen" \in DOMAIN ln /\ ln.gen
    IN
    ChkN(OpProps(ln.op), "legal-operation-panicked", why # "" \/ ~p) \o
    (* C18: a generic call is accepted exactly when the ID-based call it stands for is *)
    (IF gen THEN << Chk("C18", "generic-call-accepted-iff-its-equivalent-is", (why = "") = ~p) >> ELSE <<>>) \o
    << Chk("C10", "illegal-operation-accepted", why = "" \/ p),
       Chk("C09", "structural-change-accepted-while-locked", why # "locked" \/ p),
       Chk("C05", "dead-target-accepted", why # "dead-target" \/ p) >>

(* Result of evaluating a line:                                             *)
(*   g     the ghost after the line (before a possible resync)              *)
(*   c     checks                                                           *)
(*   evs   event cores the operation must emit now (before subscription)    *)
(*   skip  the observable outcome is unspecified: resync without checking   *)
Res(g2, c, evs) == [g |-> g2, c |-> c, evs |-> evs, skip |-> FALSE]
Skip(g2) == [g |-> g2, c |-> <<>>, evs |-> {}, skip |-> TRUE]

---------------------------------------------------------------------------
(* Held queries *)

QInfoChecks(S, qi, prop) ==
    << Chk(prop, "held-query-entities", qi.count = Cardinality(S) /\ Len(qi.at) = qi.count
                                          /\ NoDup(qi.at) /\ Range(qi.at) = S) >>

---------------------------------------------------------------------------
(* Evaluators, one per operation *)

EvNewWorld(ln, w) == Res(InitWorld(CfgOf(ln.args)), <<>>, {})

(* Creation.  ids/vals: component list and values; t: target; hasTgt: a     *)
(* target argument was passed; n: number of entities.                       *)
EvCreate(ln, w, hasRel, hasTgt, n, vals, q, hold) ==
    LET a   == ln.args
        why == CreateWhy(w, a.ids, hasRel, a.rel, hasTgt, a.tgt, n)
        hs  == ln.res.handles
        good == why = "" /\ ~ln.res.panic /\ Len(hs) = n /\ FreshAll(w, hs)
        w1  == IF good THEN CreateStep(w, hs, a.ids, vals, hasTgt, a.tgt) ELSE w
        cores == IF good THEN CreateEvents(w1, hs, a.ids) ELSE {}
        held == good /\ q /\ hold
        w2  == IF held THEN OpenHeld(w1, ln.qinfo.at, cores) ELSE w1
        c0  == OutcomeChecks(ln, why) \o
               << Chk("C02", "creation-returns-fresh-handles",
                      (why = "" /\ ~ln.res.panic) => (Len(hs) = n /\ FreshAll(w, hs))),
                  Chk("C10", "failed-creation-returns-nothing", ln.res.panic => hs = <<>>) >>
        c1  == IF good /\ q /\ ~hold THEN PanelChecks(w1, Range(hs), ln.panel, "C08") ELSE <<>>
        c2  == IF held THEN QInfoChecks(Range(hs), ln.qinfo, "C08") \o
                            << Chk("C09", "held-query-id", ln.res.ret = w1.nq) >> ELSE <<>>
    IN Res(w2, c0 \o c1 \o c2, IF held THEN {} ELSE cores)

EvNewEntity(ln, w) ==
    EvCreate([ln EXCEPT !.args = [ids |-> ln.args.ids, tgt |-> Zero, rel |-> -1]], w, FALSE, FALSE, 1, <<>>, FALSE, FALSE)
EvNewEntityWith(ln, w) ==
    EvCreate([ln EXCEPT !.args = [ids |-> ln.args.ids, tgt |-> Zero, rel |-> -1]], w, FALSE, FALSE, 1, ln.args.vals, FALSE, FALSE)
EvBuilderNew(ln, w) ==
    EvCreate(ln, w, ln.args.hasRel, ln.args.hasTgt, 1, IF ln.args.withVals THEN ln.args.vals ELSE <<>>, FALSE, FALSE)
EvNewBatch(ln, w) ==
    EvCreate(ln, w, ln.args.hasRel, ln.args.hasTgt, ln.args.n, IF ln.args.withVals THEN ln.args.vals ELSE <<>>,
             ln.args.q, ln.args.hold)

EvRemoveEntity(ln, w) ==
    LET h == ln.args.e
        why == RemoveWhy(w, h)
        good == why = "" /\ ~ln.res.panic
    IN Res(IF good THEN RemoveStep(w, h) ELSE w, OutcomeChecks(ln, why),
           IF good THEN { RemoveEvent(w, h) } ELSE {})

(* Exchange / Assign on one entity. *)
EvExchangeCore(ln, w, add, rem, vals) ==
    LET a == ln.args
        h == a.e
        why == ExchangeWhy(w, h, add, rem, a.hasRel, a.rel, a.hasTgt, a.tgt)
        good == why = "" /\ ~ln.res.panic
        w2 == IF good THEN ExchangeStep(w, h, add, rem, a.hasRel /\ a.hasTgt, a.tgt, vals) ELSE w
    IN Res(w2, OutcomeChecks(ln, why), IF good THEN ExchangeEvents(w, w2, h, add, rem) ELSE {})

EvExchange(ln, w) == EvExchangeCore(ln, w, ln.args.add, ln.args.rem, <<>>)

EvAssign(ln, w) ==
    IF ln.args.ids = <<>>
    THEN Res(w, OutcomeChecks(ln, "args"), {})
    ELSE EvExchangeCore(ln, w, ln.args.ids, <<>>, ln.args.vals)

EvSet(ln, w) ==
    LET a == ln.args
        why == SetWhy(w, a.e, a.c)
        good == why = "" /\ ~ln.res.panic
    IN Res(IF good THEN SetStep(w, a.e, a.c, a.v) ELSE w, OutcomeChecks(ln, why), {})

EvSetRelation(ln, w) ==
    LET a == ln.args h == a.e
        why == SetRelWhy(w, h, a.rel, a.tgt)
        good == why = "" /\ ~ln.res.panic
    IN Res(IF good THEN SetRelStep(w, h, a.tgt) ELSE w, OutcomeChecks(ln, why),
           IF good THEN SetRelEvents(w, h, a.rel, a.tgt) ELSE {})

(* Batch exchange.  M: the entities matching the filter when the call is made. *)
EvBatchExchange(ln, w) ==
    LET a == ln.args
        f == a.f
        noop == a.add = <<>> /\ a.rem = <<>>
        usable == FilterUsable(w, f)
        M == BatchSet(w, f)
        up == BatchExUpWhy(w, f, a.add, a.rem, a.hasRel, a.tgt)
    IN
    IF "noRelPanic" \in DOMAIN a /\ a.noRelPanic THEN Res(w, OutcomeChecks(ln, "args"), {})
    ELSE IF usable /\ OpenRel(w, f) THEN Skip(w)
    ELSE IF up # "" THEN Res(w, OutcomeChecks(ln, up), {})
    ELSE IF noop THEN
        (* returns 0 / an empty query *)
        IF a.q /\ a.hold /\ ~ln.res.panic
        THEN Res(OpenHeld(w, <<>>, {}), OutcomeChecks(ln, "") \o QInfoChecks({}, ln.qinfo, "C08"), {})
        ELSE Res(w, OutcomeChecks(ln, "") \o
                    (IF a.q THEN (IF ln.res.panic THEN <<>> ELSE PanelChecks(w, {}, ln.panel, "C08"))
                            ELSE << Chk("C08", "batch-count", ln.res.panic \/ ln.res.ret = 0) >>), {})
    ELSE IF ~BatchExAllLegal(w, M, a.add, a.rem, a.hasRel, a.rel, a.tgt) THEN
        (* Some matching entity makes the call illegal: it must panic; what  *)
        (* was changed before is unspecified for batch calls.                *)
        [g |-> w, c |-> OutcomeChecks(ln, "args"), evs |-> {}, skip |-> TRUE]
    ELSE
        LET good == ~ln.res.panic
            w1 == IF good THEN BatchExStep(w, M, a.add, a.rem, a.hasRel, a.tgt) ELSE w
            cores == IF good THEN BatchExEvents(w, w1, M, a.add, a.rem) ELSE {}
            held == good /\ a.q /\ a.hold
            w2 == IF held THEN OpenHeld(w1, ln.qinfo.at, cores) ELSE w1
            cF == IF f.k = "cached" THEN << Chk("C07", "legal-operation-panicked", good) >> ELSE <<>>
            c1 == IF ~good THEN <<>>
                  ELSE IF held THEN QInfoChecks(M, ln.qinfo, "C08")
                  ELSE IF a.q THEN PanelChecks(w1, M, ln.panel, "C08")
                  ELSE << Chk("C08", "batch-count", ln.res.ret = Cardinality(M)) >>
        IN Res(w2, OutcomeChecks(ln, "") \o cF \o c1, IF held THEN {} ELSE cores)

EvBatchSetRelation(ln, w) ==
    LET a == ln.args
        f == a.f
        usable == FilterUsable(w, f)
        M == BatchSet(w, f)
        up == BatchSetRelUpWhy(w, f, a.tgt)
        Ch == BatchSetRelChanged(w, M, a.tgt)
    IN
    IF usable /\ OpenRel(w, f) THEN Skip(w)
    ELSE IF up # "" THEN Res(w, OutcomeChecks(ln, up), {})
    ELSE IF ~BatchSetRelAllRel(w, M, a.rel, a.tgt) THEN Skip(w)
    ELSE
        LET good == ~ln.res.panic
            w1 == IF good THEN BatchSetRelStep(w, M, a.tgt) ELSE w
            cores == IF good THEN BatchSetRelEvents(w, M, a.rel, a.tgt) ELSE {}
            held == good /\ a.q /\ a.hold
            w2 == IF held THEN OpenHeld(w1, ln.qinfo.at, cores) ELSE w1
            cF == IF f.k = "cached" THEN << Chk("C07", "legal-operation-panicked", good) >> ELSE <<>>
            c1 == IF ~good THEN <<>>
                  ELSE IF held THEN QInfoChecks(Ch, ln.qinfo, "C08")
                  ELSE IF a.q THEN PanelChecks(w1, Ch, ln.panel, "C08")
                  ELSE << Chk("C08", "batch-count", ln.res.ret = Cardinality(M)) >>
        IN Res(w2, OutcomeChecks(ln, "") \o cF \o c1, IF held THEN {} ELSE cores)

EvBatchRemove(ln, w) ==
    LET f == ln.args.f
        usable == FilterUsable(w, f)
        M == BatchSet(w, f)
        up == BatchRemoveUpWhy(w, f)
    IN
    IF usable /\ OpenRel(w, f) THEN Skip(w)
    ELSE IF up # "" THEN Res(w, OutcomeChecks(ln, up), {})
    ELSE
        LET good == ~ln.res.panic
            cF == IF f.k = "cached" THEN << Chk("C07", "legal-operation-panicked", good) >> ELSE <<>>
        IN Res(IF good THEN BatchRemoveStep(w, M) ELSE w,
               OutcomeChecks(ln, "") \o cF \o << Chk("C08", "batch-count", ~good \/ ln.res.ret = Cardinality(M)) >>,
               IF good THEN BatchRemoveEvents(w, M) ELSE {})

EvPanel(ln, w) ==
    LET f == ln.args.f usable == FilterUsable(w, f) IN
    IF ~usable THEN Res(w, OutcomeChecks(ln, "args"), {})
    ELSE IF OpenRel(w, f) THEN Skip(w)
    ELSE Res(w, OutcomeChecks(ln, "") \o
                (IF ln.res.panic THEN <<>>
                 ELSE PanelChecks(w, QuerySet(w, f), ln.panel, "C03")
                      \o (IF Core(f).k = "rel"
                          THEN (* C05 / C06: what a relation filter - registered or not - yields for target T are exactly the   *)
                               (* entities whose current target is T: nobody is missing, nobody foreign shows up              *)
                               << Chk("C05", "panel-relation-filter-selects-its-target",
                                      ln.panel.count = Cardinality(QuerySet(w, f)) /\ Range(ln.panel.at) = QuerySet(w, f)),
                                  Chk("C06", "panel-nothing-foreign-under-a-target", Range(ln.panel.at) \subseteq QuerySet(w, f)) >>
                          ELSE <<>>)), {})

EvOpenQuery(ln, w) ==
    LET f == ln.args.f usable == FilterUsable(w, f) IN
    IF ~usable THEN Res(w, OutcomeChecks(ln, "args"), {})
    ELSE IF ln.res.panic THEN Res(w, OutcomeChecks(ln, ""), {})
    ELSE Res(OpenHeld(w, ln.qinfo.at, {}),
             OutcomeChecks(ln, "") \o
             (IF OpenRel(w, f) THEN <<>> ELSE QInfoChecks(QuerySet(w, f), ln.qinfo, "C03")) \o
             << Chk("C09", "held-query-id", ln.res.ret = w.nq) >>, {})

EvQuery(ln, w) ==
    LET q == ln.args.qi IN
    IF q \notin DOMAIN w.open THEN Skip(w)   \* schedule error: the query is not open
    ELSE
    LET o == w.open[q]
        n == Len(o.order)
    IN CASE ln.op = "QCount" ->
              Res(w, OutcomeChecks(ln, "") \o << Chk("C03", "held-count", ln.res.panic \/ ln.res.ret = n) >>, {})
         [] ln.op = "QClose" ->
              IF ln.res.panic THEN Res(w, OutcomeChecks(ln, ""), {})
              ELSE Res(CloseHeld(w, q), OutcomeChecks(ln, ""), o.pend)
         [] ln.op \in {"QNext", "QStep"} ->
              LET k == IF ln.op = "QNext" THEN 1 ELSE ln.args.n
                  p == o.pos + k
              IN IF k < 1 THEN Res(w, OutcomeChecks(ln, "args"), {})
                 ELSE IF ln.res.panic THEN Res(w, OutcomeChecks(ln, ""), {})
                 ELSE IF p <= n
                 THEN LET w1 == [w EXCEPT !.open[q].pos = p] IN
                      Res(w1, OutcomeChecks(ln, "") \o
                          << Chk(o.prop, "held-step-lands-like-nexts",
                                 ln.res.ret = 1 /\ ln.pos.e = o.order[p] /\ PosOK(w, ln.pos)) >>, {})
                 ELSE Res(CloseHeld(w, q), OutcomeChecks(ln, "") \o
                          << Chk(o.prop, "held-exhaustion", ln.res.ret = 0) >>, o.pend)

EvRegister(ln, w) ==
    LET f == ln.args.f
        why == IF f.k = "cached" THEN "args" ELSE ""
        good == why = "" /\ ~ln.res.panic
    IN Res(IF good THEN [w EXCEPT !.regs = Append(@, [f |-> f, live |-> TRUE])] ELSE w,
           OutcomeChecks(ln, why) \o
           << Chk("C07", "registration-index", ~good \/ ln.res.ret = Len(w.regs)) >>, {})

EvUnregister(ln, w) ==
    LET r == ln.args.reg + 1
        why == IF r \in DOMAIN w.regs /\ w.regs[r].live THEN "" ELSE "args"
        good == why = "" /\ ~ln.res.panic
    IN Res(IF good THEN [w EXCEPT !.regs[r].live = FALSE] ELSE w,
           OutcomeChecks(ln, why) \o
           << Chk("C07", "unregister-returns-original", ~good \/ ln.sameFilter) >>, {})

EvReset(ln, w) ==
    LET why == LockWhy(w)
        good == why = "" /\ ~ln.res.panic
    IN Res(IF good THEN ResetStep(w) ELSE w, OutcomeChecks(ln, why), {})

EvRead(ln, w) ==
    LET a == ln.args h == a.e
        alive == h \in w.alive
        isRel == alive /\ a.c \in w.comps[h] /\ a.c \in w.cfg.rels
        why == CASE ln.api = "Alive" -> ""
                 [] ln.api \in {"Relations.Get", "generic.Map1.GetRelation"} -> IF isRel THEN "" ELSE "args"
                 [] OTHER -> IF alive THEN "" ELSE "args"
        good == why = "" /\ ~ln.res.panic
        ok == CASE ln.api = "Alive" -> ln.res.ret = (IF alive THEN 1 ELSE 0)
                [] ln.api \in {"Get", "Has", "generic.Map1.Get", "generic.Map1.Has"} -> ln.res.ret = (IF a.c \in w.comps[h] THEN 1 ELSE 0)
                [] ln.api = "generic.Map.Get" -> Len(ln.getpos) = ln.res.ret /\ GetPosOK(w, h, ln.getpos)
                [] ln.api \in {"Mask", "Ids"} -> ln.res.ret = Cardinality(w.comps[h])
                [] ln.api \in {"Relations.Get", "generic.Map1.GetRelation"} -> ln.res.handles = << w.tgt[h] >>
    IN Res(w, OutcomeChecks(ln, why) \o
              << Chk(IF ln.api = "Relations.Get" THEN "C05" ELSE IF ln.api = "Alive" THEN "C02" ELSE "C01",
                     "read-result", ~good \/ ok) >>, {})

EvRes(ln, w) ==
    LET r == ln.args.r
        add == ln.op = "ResAdd"
        why == ResWhy(w, add, r)
        good == why = "" /\ ~ln.res.panic
    IN Res(IF good THEN ResStep(w, add, r, ln.res.ret) ELSE w, OutcomeChecks(ln, why), {})

EvDump(ln, w) ==
    Res(w, OutcomeChecks(ln, "") \o
           << Chk("C17", "entities-survive-json", ln.res.panic \/ ln.jsonOK),
              Chk("C17", "dump-is-the-pool", ln.res.panic \/
                    (PoolOf(ln.dump) = w.pool /\ Range(ln.dump.alive) = { h[1] : h \in w.alive }
                     /\ Len(ln.dump.alive) = Cardinality(w.alive))) >>, {})

EvLoad(ln, w) ==
    LET why == LoadWhy(w)
        good == why = "" /\ ~ln.res.panic
    IN Res(IF good THEN LoadStep(w, ln.args.dump) ELSE w, OutcomeChecks(ln, why), {})

(* Reading a resource: Get of an absent resource is nil (never a panic), otherwise the exact pointer. *)
EvResGet(ln, w) ==
    LET r == ln.args.r
        present == r \in DOMAIN w.res
        isHas == ln.api \in {"Resources.Has", "generic.Resource.Has"}
        ok == IF isHas THEN ln.res.ret = (IF present THEN 1 ELSE 0)
              ELSE IF present THEN ln.res.ret = w.res[r] /\ ln.same ELSE ln.res.ret = -1
    IN Res(w, OutcomeChecks(ln, "") \o << Chk("C20", "resource-read", ln.res.panic \/ ok) >>, {})

EvAddListener(ln, w) ==
    LET a == ln.args
        w1 == [w EXCEPT !.cfg.subs = Append(@, [on |-> TRUE, S |-> a.s, C |-> Range(a.c), hasC |-> a.hasc])]
    IN Res(IF ln.res.panic THEN w ELSE w1, << Chk("C12", "legal-operation-panicked", ~ln.res.panic) >>, {})

(* Generic filter builders (C18) *)
EvGNewFilter(ln, w) ==
    Res(IF ln.res.panic THEN w ELSE [w EXCEPT !.gfs = Append(@, GFInit(ln.args.ar))],
        << Chk("C18", "legal-operation-panicked", ~ln.res.panic),
           Chk("C18", "filter-index", ln.res.panic \/ ln.res.ret = Len(w.gfs)) >>, {})

EvGBuild(ln, w) ==
    LET a == ln.args
        f == w.gfs[a.gf + 1]
        ids == Range(a.ids)
        why == CASE a.m = "Register" -> GFRegisterWhy(f, w.cfg.rels)
                 [] a.m = "Unregister" -> GFUnregisterWhy(f)
                 [] OTHER -> GFBuildWhy(f, a.m, ids)
        good == why = "" /\ ~ln.res.panic
        f2 == CASE a.m = "Register" -> [f EXCEPT !.locked = TRUE]
                [] a.m = "Unregister" -> [f EXCEPT !.locked = FALSE]
                [] OTHER -> GFBuildStep(f, a.m, ids, a.hasTgt, a.tgt)
    IN Res(IF good THEN [w EXCEPT !.gfs[a.gf + 1] = f2] ELSE w,
           << Chk("C18", "legal-operation-panicked", why # "" \/ ~ln.res.panic),
              Chk("C10", "illegal-operation-accepted", why = "" \/ ln.res.panic) >>, {})

EvGQuery(ln, w) ==
    LET a == ln.args
        f == w.gfs[a.gf + 1]
        why == GFQueryWhy(f, w.cfg.rels, a.hasTgt)
        flt == GFFilter(f, a.hasTgt, a.tgt)
        st == IF a.hold THEN <<>> ELSE ln.panel.steps
        relOK(p) == IF f.rel = -1 THEN p.grelPanic
                    ELSE ~p.grelPanic /\ p.grel = w.tgt[p.e]
    IN IF a.hasTgt /\ f.rel = -1 THEN Skip(w)   \* a target without WithRelation: unspecified (documented to panic)
       ELSE IF why # "" \/ ln.res.panic
       THEN Res(w, << Chk("C18", "legal-operation-panicked", why # "" \/ ~ln.res.panic),
                      Chk("C10", "illegal-operation-accepted", why = "" \/ ln.res.panic) >>, {})
       ELSE IF a.hold
       THEN Res(OpenHeldP(w, ln.qinfo.at, {}, "C18"), QInfoChecks(QuerySet(w, flt), ln.qinfo, "C18"), {})
       ELSE Res(w, PanelChecks(w, QuerySet(w, flt), ln.panel, "C18") \o
                   << Chk("C18", "query-relation", \A i \in DOMAIN st : st[i].ok => relOK(st[i].pos)) >>, {})

Eval(ln, w) ==
    CASE ln.op = "NewWorld" -> EvNewWorld(ln, w)
      [] ln.op = "GNewFilter" -> EvGNewFilter(ln, w)
      [] ln.op = "GBuild" -> EvGBuild(ln, w)
      [] ln.op = "GQuery" -> EvGQuery(ln, w)
      [] ln.op = "AddListener" -> EvAddListener(ln, w)
      [] ln.op = "ResGet" -> EvResGet(ln, w)
      [] ln.op = "ResLazy" -> Res(w, << Chk("C20", "first-lookup-of-a-resource-type-works-in-any-lock-state",
                                          ~ln.res.panic /\ ln.res.ret = -1) >>, {})
      [] ln.op = "Dump" -> EvDump(ln, w)
      [] ln.op = "Load" -> EvLoad(ln, w)
      [] ln.op = "NewEntity" -> EvNewEntity(ln, w)
      [] ln.op = "NewEntityWith" -> EvNewEntityWith(ln, w)
      [] ln.op = "BuilderNew" -> EvBuilderNew(ln, w)
      [] ln.op = "NewBatch" -> EvNewBatch(ln, w)
      [] ln.op = "RemoveEntity" -> EvRemoveEntity(ln, w)
      [] ln.op = "Exchange" -> EvExchange(ln, w)
      [] ln.op = "Assign" -> EvAssign(ln, w)
      [] ln.op = "Set" -> EvSet(ln, w)
      [] ln.op = "SetRelation" -> EvSetRelation(ln, w)
      [] ln.op = "BatchExchange" -> EvBatchExchange(ln, w)
      [] ln.op = "BatchSetRelation" -> EvBatchSetRelation(ln, w)
      [] ln.op = "BatchRemove" -> EvBatchRemove(ln, w)
      [] ln.op = "Panel" -> EvPanel(ln, w)
      [] ln.op = "OpenQuery" -> EvOpenQuery(ln, w)
      [] ln.op \in {"QNext", "QStep", "QClose", "QCount"} -> EvQuery(ln, w)
      [] ln.op = "Register" -> EvRegister(ln, w)
      [] ln.op = "Unregister" -> EvUnregister(ln, w)
      [] ln.op = "Reset" -> EvReset(ln, w)
      [] ln.op = "Read" -> EvRead(ln, w)
      [] ln.op \in {"ResAdd", "ResRemove"} -> EvRes(ln, w)
      [] ln.op = "GC" -> Res(w, <<>>, {})
      [] ln.op = "RegisterTypes" -> Res(w, OutcomeChecks(ln, LockWhy(w)), {})
      [] ln.op = "MoveStress" -> Res(w, << Chk("C14", "moves-under-gc-pressure-do-not-fail", ~ln.res.panic) >>, {})
      [] ln.op = "GCCheck" ->
            Res(w, << Chk("C14", "gc-checkpoint-ran", ~ln.res.panic),
                      Chk("C14", "unreferenced-payloads-released", ln.res.panic \/ ln.gc.leaked = <<>>) >>, {})

---------------------------------------------------------------------------
(* The trace specification *)

PropIds == { "DRIFT", "C01", "C02", "C03", "C04", "C05", "C06", "C07", "C08", "C09", "C10",
             "C11", "C12", "C13", "C14", "C15", "C16", "C17", "C18", "C19", "C20" }

Failed(cs) == SelectSeq(cs, LAMBDA c : ~c[3])

(* C14: a pointer-carrying component must never be MOVED by untyped copies: GcBarrier.tla shows that a raw  *)
(* copy into a column combined with raw zeroing of the source slot loses the referent under some collector *)
(* schedule (a typed copy or a typed zeroing alone keeps it safe).                                          *)
RawChecks(ln) ==
    IF "raw" \in DOMAIN ln
    THEN << Chk("C14", "no-unbarriered-move-of-pointer-components", ~(ln.raw.copies > 0 /\ ln.raw.zeros > 0)) >>
    ELSE <<>>

(* C08: the ghost after a batch call is the fold of the single-entity steps over the entities that matched, so the   *)
(* observed world after a batch call has to be that world: entities, components, values, targets.                    *)
BatchStateChecks(ln, w2) ==
    IF ln.op \in {"BatchExchange", "BatchSetRelation", "BatchRemove", "NewBatch"} /\ ~ln.res.panic
    THEN LET E == ln.obs.ents IN
         << Chk("C08", "batch-leaves-the-state-of-the-single-operations",
                /\ { E[i].e : i \in DOMAIN E } = w2.alive /\ Len(E) = Cardinality(w2.alive)
                /\ \A i \in DOMAIN E : EntOK(w2, E[i]) /\ EntValsOK(w2, E[i]) /\ EntTgtOK(w2, E[i])) >>
    ELSE <<>>

(* C10: a call addressing a single entity (or none) that panics leaves every observable of the world as it was:   *)
(* the ghost did not move, so the whole observation - entities, components, values, targets, the All() query,     *)
(* counts, resources, lock state, the entity pool - has to be that of the ghost before the call.                  *)
RejectedChecks(ln, w, w2) ==
    IF ln.res.panic /\ w2 = w /\ ln.op \notin {"BatchExchange", "BatchSetRelation", "BatchRemove", "NewBatch", "NewWorld", "Load", "Fork", "TwinEq"}
    THEN LET cs == ObsChecks(w, ln.obs) IN
         << Chk("C10", "rejected-call-changes-nothing",
                /\ \A i \in DOMAIN cs : cs[i][3]
                /\ PoolOf(ln.obs.pool) = w.pool) >>
    ELSE <<>>

(* C18: the ghost after a generic call is the ghost after the ID-based call it stands for, so the observed world *)
(* after a generic call has to be that world.                                                                  *)
GenericStateChecks(ln, w2, opChecks) ==
    IF "gen" \in DOMAIN ln /\ ln.gen /\ ~ln.res.panic
    THEN LET cs == ObsChecks(w2, ln.obs) IN
         << Chk("C18", "generic-call-has-the-effect-of-its-equivalent", \A i \in DOMAIN cs : cs[i][3]),
            (* ... and returns what its equivalent returns: every check of the operation itself (counts, panels,   *)
            (* results of reads) holds, whichever property it is listed under                                      *)
            Chk("C18", "generic-call-returns-what-its-equivalent-returns", \A i \in DOMAIN opChecks : opChecks[i][3]) >>
    ELSE <<>>

AllChecks(ln, w, r) ==
    IF r.skip THEN r.c
    ELSE r.c \o ObsChecks(r.g, ln.obs) \o PoolChecks(ln, w, r.g)
             \o (IF "sweep" \in DOMAIN ln THEN SweepChecks(r.g, ln.sweep) ELSE <<>>)
             \o (IF ln.op = "NewWorld" THEN <<>> ELSE EventChecks(w, r.g, ln.events, r.evs))
             \o RawChecks(ln)
             \o BatchStateChecks(ln, r.g)
             \o RejectedChecks(ln, w, r.g)
             \o GenericStateChecks(ln, r.g, r.c)

---------------------------------------------------------------------------
(* Layer-2 conformance: the hidden state logged by the hook (World.VerifShape) evolves exactly as     *)
(* Arche.tla says, one step at a time from the code's own previous state.  Differences are DRIFT:     *)
(* they concern allocation and ordering policy that no listed property talks about.                    *)

ShapeState(sh, obs, cfg, regs) ==
    LET valsOf(h) == IF \E i \in DOMAIN obs.ents : obs.ents[i].e = h
                     THEN LET P == Pairs(EntRec(obs, h).vals) IN [c \in { p[1] : p \in P } |-> (CHOOSE p \in P : p[1] = c)[2]]
                     ELSE [c \in {} |-> 0]
    IN [ pool |-> PoolOf(sh.pool),
         eidx |-> sh.eidx,
         tflag |-> Range(sh.tflag),
         nodes |-> [n \in DOMAIN sh.nodes |->
                      [mask |-> Range(sh.nodes[n].mask), rel |-> sh.nodes[n].rel, active |-> sh.nodes[n].active,
                       tbls |-> [t \in DOMAIN sh.nodes[n].tbls |->
                                   [tgt |-> sh.nodes[n].tbls[t].tgt, active |-> sh.nodes[n].tbls[t].active,
                                    rows |-> [r \in DOMAIN sh.nodes[n].tbls[t].rows |->
                                                [e |-> sh.nodes[n].tbls[t].rows[r], v |-> valsOf(sh.nodes[n].tbls[t].rows[r])]],
                                    cap |-> sh.nodes[n].tbls[t].cap]],
                       free |-> sh.nodes[n].free]],
         cache |-> [i \in DOMAIN sh.cache |->
                      [fid |-> sh.cache[i].fid, f |-> regs[sh.cache[i].fid + 1].f, list |-> sh.cache[i].list,
                       hasIdx |-> sh.cache[i].hasIdx, idx |-> Range(sh.cache[i].idx)]],
         fidNext |-> sh.fidNext,
         cfg |-> cfg ]

(* what is compared: everything but the component values (they are compared through the observation) *)
ProjTables(x) == [n \in DOMAIN x.nodes |->
                    [mask |-> x.nodes[n].mask, rel |-> x.nodes[n].rel, active |-> x.nodes[n].active, free |-> x.nodes[n].free,
                     tbls |-> [t \in DOMAIN x.nodes[n].tbls |->
                                 [tgt |-> x.nodes[n].tbls[t].tgt, active |-> x.nodes[n].tbls[t].active, cap |-> x.nodes[n].tbls[t].cap,
                                  rows |-> [r \in DOMAIN x.nodes[n].tbls[t].rows |-> x.nodes[n].tbls[t].rows[r].e]]]]]
ProjCache(x) == [i \in DOMAIN x.cache |-> [fid |-> x.cache[i].fid, list |-> x.cache[i].list, hasIdx |-> x.cache[i].hasIdx, idx |-> x.cache[i].idx]]

FidOf(f) == IF f.k = "cached" THEN f.reg ELSE -1
GivenVals(w, ids, vs) == LET V == ValsFrom(w, ids, vs) IN V

(* the expected hidden state after a line that did not panic; pre: state before, w: ghost before *)
L2Expect(ln, pre, w) ==
    LET a == ln.args IN
    CASE ln.op \in {"NewEntity", "NewEntityWith"} ->
            LCreate(pre, a.ids, IF ln.op = "NewEntityWith" THEN ValsFrom(w, a.ids, a.vals) ELSE EmptyFun, FALSE, -1, Zero, 1, FALSE).s
      [] ln.op = "BuilderNew" ->
            LCreate(pre, a.ids, IF a.withVals THEN ValsFrom(w, a.ids, a.vals) ELSE EmptyFun, a.hasTgt, a.rel, a.tgt, 1, FALSE).s
      [] ln.op = "NewBatch" ->
            LCreate(pre, a.ids, IF a.withVals THEN ValsFrom(w, a.ids, a.vals) ELSE EmptyFun, a.hasTgt, a.rel, a.tgt, a.n, TRUE).s
      [] ln.op = "RemoveEntity" -> LRemove(pre, a.e)
      [] ln.op = "Exchange" ->
            IF a.add = <<>> /\ a.rem = <<>> THEN pre
            ELSE LExchange(pre, a.e, a.add, a.rem, a.hasRel /\ a.hasTgt, a.rel, a.tgt, EmptyFun).s
      [] ln.op = "Assign" -> LExchange(pre, a.e, a.ids, <<>>, a.hasRel /\ a.hasTgt, a.rel, a.tgt, ValsFrom(w, a.ids, a.vals)).s
      [] ln.op = "SetRelation" -> LSetRelation(pre, a.e, a.tgt)
      [] ln.op = "BatchExchange" ->
            IF a.add = <<>> /\ a.rem = <<>> THEN pre
            ELSE LBatchExchange(pre, Core(a.f), FidOf(a.f), a.add, a.rem, a.hasRel, a.rel, a.tgt).s
      [] ln.op = "BatchSetRelation" -> LBatchSetRelation(pre, Core(a.f), FidOf(a.f), a.tgt)
      [] ln.op = "BatchRemove" -> LBatchRemove(pre, Core(a.f), FidOf(a.f))
      [] ln.op = "Register" -> LRegister(pre, a.f)
      [] ln.op = "Unregister" -> LUnregister(pre, a.reg)
      [] ln.op = "Reset" -> LReset(pre)
      [] ln.op = "Load" -> LLoad(pre, a.dump)
      [] OTHER -> pre

L2Checks(ln, w, regsAfter) ==
    IF "shape" \notin DOMAIN ln \/ "shape" \notin DOMAIN prev[ln.w] \/ ln.op \in {"NewWorld", "Fork", "TwinEq"}
       \/ (ln.op = "Fork") THEN <<>>
    ELSE
    LET cfg2 == [rels |-> w.cfg.rels, sized |-> w.cfg.sized, capInc |-> w.cfg.capInc, relCapInc |-> w.cfg.relCapInc]
        pre == ShapeState(prev[ln.w].shape, prev[ln.w].obs, cfg2, w.regs)
        post == ShapeState(ln.shape, ln.obs, cfg2, regsAfter)
        exp == IF ln.res.panic THEN pre ELSE L2Expect(ln, pre, w)
        okPanic == ln.res.panic => (post.pool = pre.pool /\ post.eidx = pre.eidx)
    IN IF ln.res.panic THEN << Chk("DRIFT", "l2-failed-call-leaves-entities-in-place", okPanic) >>
       ELSE << Chk("DRIFT", "l2-entity-pool", post.pool = exp.pool),
               Chk("DRIFT", "l2-entity-index", post.eidx = exp.eidx /\ post.tflag = exp.tflag),
               Chk("DRIFT", "l2-tables-rows-freelists", ProjTables(post) = ProjTables(exp)),
               Chk("DRIFT", "l2-filter-cache", ProjCache(post) = ProjCache(exp) /\ post.fidNext = exp.fidNext),
               Chk("DRIFT", "l2-structural-invariants", StructInv(post) /\ CacheInv(post)),
               Chk("DRIFT", "l2-targets-of-tables-flagged", FlagInv(post)),
               (* iteration orders: the All() query, and every registered filter next to its original *)
               Chk("DRIFT", "l2-query-iteration-order",
                   /\ ln.obs.all = LQueryOrder(post, [k |-> "all", ids |-> <<>>, exc |-> <<>>, tgt |-> Zero, reg |-> -1, subs |-> <<>>], -1)
                   /\ ("sweep" \in DOMAIN ln =>
                         \A i \in DOMAIN ln.sweep :
                             OpenRelCase(w, ln.sweep[i].f) \/
                             ( /\ ln.sweep[i].cached = LQueryOrder(post, ln.sweep[i].f, ln.sweep[i].reg)
                               /\ ln.sweep[i].orig = LQueryOrder(post, ln.sweep[i].f, -1) ))) >>

EmptyCfg == [comps |-> {}, rels |-> {}, sized |-> {}, nres |-> 0, totalBits |-> 256, capInc |-> 1, relCapInc |-> 0,
             lst |-> [on |-> FALSE, S |-> 0, C |-> {}, hasC |-> FALSE], isDispatch |-> FALSE, subs |-> <<>>]

Init ==
    /\ l = 1
    /\ g = [k \in {0, 1} |-> InitWorld(EmptyCfg)]
    /\ viol = <<>>
    /\ nchk = [p \in PropIds |-> 0]
    /\ prev = [k \in {0, 1} |-> [none |-> TRUE]]

(* A twin world: forked after Reset (a fresh world with the same registrations) or by LoadEntities. *)
ForkWorld(ln) ==
    LET a == ln.args
        w0 == [InitWorld(CfgOf(a)) EXCEPT !.regs = [i \in DOMAIN a.regs |-> [f |-> a.regs[i].f, live |-> a.regs[i].live]],
                                          !.nq = g[0].nq]
    IN IF ln.api = "load" /\ ~ln.res.panic
       THEN [LoadStep(w0, a.dump) EXCEPT !.iss = ln.obs.issued]
       ELSE [w0 EXCEPT !.iss = ln.obs.issued]

SetOf(s) == { s[i] : i \in DOMAIN s }
EvCores(evs) == { NormEv(evs[i]) : i \in DOMAIN evs }
PanelEq(x, y) == ("panel" \in DOMAIN x) = ("panel" \in DOMAIN y) /\
                 ("panel" \in DOMAIN x => (x.panel.count = y.panel.count /\ SetOf(x.panel.at) = SetOf(y.panel.at)))

TwinChecks(ln) ==
    LET a == ln.a b == ln.b IN
    IF ln.api = "reset" THEN
       << Chk("C15", "twin-same-outcome", a.res.panic = b.res.panic /\ a.res.ret = b.res.ret),
          Chk("C15", "twin-same-handles", a.res.handles = b.res.handles /\ a.obs.issued = b.obs.issued
                                           /\ (ln.of = "BatchRemove" \/ PoolOf(a.obs.pool) = PoolOf(b.obs.pool))),
          Chk("C15", "twin-same-entities", SetOf(a.obs.ents) = SetOf(b.obs.ents) /\ a.obs.alive = b.obs.alive
                                            /\ a.obs.used = b.obs.used /\ SetOf(a.obs.all) = SetOf(b.obs.all)),
          Chk("C15", "twin-same-events", EvCores(a.events) = EvCores(b.events) /\ Len(a.events) = Len(b.events)),
          Chk("C15", "twin-same-queries", PanelEq(a, b)),
          Chk("C15", "twin-same-resources-and-lock", a.obs.res = b.obs.res /\ a.obs.locked = b.obs.locked) >>
    ELSE
       << Chk("C17", "twin-same-handles",
              /\ a.obs.issued = b.obs.issued
              /\ (ln.of \in {"NewEntity", "NewEntityWith", "BuilderNew", "NewBatch"} => a.res.handles = b.res.handles)),
          Chk("C17", "twin-same-pool", PoolOf(a.obs.pool) = PoolOf(b.obs.pool)
                                        /\ SetOf(a.obs.pool.alive) = SetOf(b.obs.pool.alive)),
          Chk("C17", "twin-same-alive-answers", a.obs.alive = b.obs.alive /\ a.obs.used = b.obs.used
                                                 /\ SetOf(a.obs.all) = SetOf(b.obs.all)),
          Chk("C17", "dump-value-unchanged-by-loading", "dumpNow" \notin DOMAIN ln \/ ln.dumpNow = ln.dumpThen),
          Chk("C17", "dump-loads-the-same-again",
              "reload" \notin DOMAIN ln \/ (ln.reload.ok /\ PoolOf(ln.reload) = PoolOf(ln.dumpThen)
                                            /\ SetOf(ln.reload.alive) = SetOf(ln.dumpThen.alive))),
          (* C02 after LoadEntities: a third world that loads the dump has exactly the dumped alive set, *)
          (* whatever another world that loaded the same dump did in the meantime                        *)
          Chk("C02", "loaded-world-alive-set-is-the-dumped-one",
              "reload" \notin DOMAIN ln \/ (ln.reload.ok /\ PAliveSet(PoolOf(ln.reload)) = PAliveSet(PoolOf(ln.dumpThen)))),
          (* C19: worlds that loaded the same dump are independent - nothing one of them does shows in the dump *)
          (* value, in what a third world gets from it, or in the sibling's pool                                *)
          Chk("C19", "worlds-from-one-dump-do-not-interfere",
              /\ ("dumpNow" \notin DOMAIN ln \/ ln.dumpNow = ln.dumpThen)
              /\ ("reload" \notin DOMAIN ln \/ (ln.reload.ok /\ PoolOf(ln.reload) = PoolOf(ln.dumpThen)
                                                /\ SetOf(ln.reload.alive) = SetOf(ln.dumpThen.alive)))
              /\ PoolOf(a.obs.pool) = PoolOf(b.obs.pool) /\ a.obs.alive = b.obs.alive),
          Chk("C17", "twin-second-dump-identical",
              ln.of # "Dump" \/ (a.res.panic = b.res.panic /\
                                   (a.res.panic \/ (PoolOf(a.dump) = PoolOf(b.dump) /\ SetOf(a.dump.alive) = SetOf(b.dump.alive))))) >>

Record(fs, ln) == [i \in 1..Len(fs) |-> [line |-> l, i |-> ln.i, op |-> ln.op, prop |-> fs[i][1], check |-> fs[i][2]]]

Step ==
    /\ l <= Len(Trace)
    /\ LET ln == Trace[l] IN
       IF ln.op = "TwinEq" THEN
          LET cs == TwinChecks(ln) fs == Failed(cs) IN
          /\ g' = g /\ prev' = prev
          /\ viol' = IF Len(viol) > 200 THEN viol ELSE viol \o Record(fs, ln)
          /\ nchk' = FoldSeq(LAMBDA c, acc : [acc EXCEPT ![c[1]] = @ + 1], nchk, cs)
       ELSE IF ln.op = "Fork" THEN
          LET w1 == ForkWorld(ln)
              cs == << Chk("C17", "load-into-fresh-or-reset-world-accepted", ~ln.res.panic) >>
                    \o ObsChecks(w1, ln.obs) \o PoolChecks(ln, w1, w1)
              fs == Failed(cs) IN
          /\ g' = [g EXCEPT ![1] = [w1 EXCEPT !.pool = PoolOf(ln.obs.pool)]]
          /\ prev' = [prev EXCEPT ![1] = IF "shape" \in DOMAIN ln THEN [shape |-> ln.shape, obs |-> ln.obs] ELSE [none |-> TRUE]]
          /\ viol' = IF Len(viol) > 200 THEN viol ELSE viol \o Record(fs, ln)
          /\ nchk' = FoldSeq(LAMBDA c, acc : [acc EXCEPT ![c[1]] = @ + 1], nchk, cs)
       ELSE
          LET w  == g[ln.w]
              r  == Eval(ln, w)
              cs == AllChecks(ln, w, r) \o (IF r.skip THEN <<>> ELSE L2Checks(ln, w, r.g.regs))
              fs == Failed(cs)
              bad == fs # <<>> \/ r.skip
              w2 == IF bad /\ ln.op # "NewWorld" THEN FromObs(r.g, ln.obs)
                    ELSE [r.g EXCEPT !.pool = PoolOf(ln.obs.pool)]
          IN /\ g' = [g EXCEPT ![ln.w] = w2]
             /\ prev' = [prev EXCEPT ![ln.w] = IF "shape" \in DOMAIN ln THEN [shape |-> ln.shape, obs |-> ln.obs] ELSE [none |-> TRUE]]
             /\ viol' = IF Len(viol) > 200 THEN viol ELSE viol \o Record(fs, ln)
             /\ nchk' = FoldSeq(LAMBDA c, acc : [acc EXCEPT ![c[1]] = @ + 1], nchk, cs)
    /\ l' = l + 1

Next == Step

Spec == Init /\ [][Next]_vars

(* Printed once, in the state that has consumed the whole trace. *)
Report ==
    l = Len(Trace) + 1 =>
        PrintT(<<"RESULT", ToJson([lines |-> Len(Trace), checks |-> nchk, violations |-> viol])>>)

TraceAccepted == TLCGet("stats").diameter - 1 = Len(Trace)

=============================================================================
