---------------------------- MODULE TraceMasks ----------------------------
(***************************************************************************)
(* Validation of recorded calls on the real ecs.Mask and filter values     *)
(* (harness mode `masks`) against the set semantics of Masks.tla and the   *)
(* filter semantics MatchesMask of ArcheAbs.tla.  Property C04.            *)
(***************************************************************************)
EXTENDS Masks, ArcheAbs, Json, IOUtils, SequencesExt

Trace == ndJsonDeserialize(IOEnv.TRACE)
TB == Trace[1].totalBits

VARIABLES l, viol, nchk
vars == <<l, viol, nchk>>

Dec(m) == IF m.c THEN Ids(TB) \ Range(m.ids) ELSE Range(m.ids)

BinOK(x) ==
    LET a == Dec(x.a) b == Dec(x.b) IN
    << <<"and", Dec(x["and"]) = MAnd(a, b)>>,
       <<"or", Dec(x["or"]) = MOr(a, b)>>,
       <<"xor", Dec(x["xor"]) = MXor(a, b)>>,
       <<"contains", x.contains = MContains(a, b)>>,
       <<"containsAny", x.containsAny = MContainsAny(a, b)>>,
       <<"contains-reverse", x.rcontains = MContains(b, a)>>,
       <<"equality", x.eq = (a = b)>> >>

UnOK(x) ==
    LET a == Dec(x.a) IN
    << <<"not", Dec(x["not"]) = MNot(a, TB)>>,
       <<"isZero", x.isZero = MIsZero(a)>>,
       <<"totalBitsSet", x.total = MTotalBitsSet(a)>>,
       <<"reset", Dec(x.reset) = MReset(a)>>,
       <<"get", \A i \in DOMAIN x.probe : x.gets[i] = MGet(a, x.probe[i])>>,
       <<"set-true", \A i \in DOMAIN x.probe : Dec(x.sets[i]) = MSet(a, x.probe[i], TRUE)>>,
       <<"set-false", \A i \in DOMAIN x.probe : Dec(x.clrs[i]) = MSet(a, x.probe[i], FALSE)>> >>

FilterOK(x) ==
    << <<"filter-" \o x.f.k, \A i \in DOMAIN x.ms : x.res[i] = MatchesMask(x.f, Range(x.ms[i]))>> >>

Checks(x) ==
    CASE x.op = "bin" -> BinOK(x)
      [] x.op = "un" -> UnOK(x)
      [] x.op = "filter" -> FilterOK(x)
      [] OTHER -> <<>>

Init == l = 1 /\ viol = <<>> /\ nchk = 0

Next ==
    /\ l <= Len(Trace)
    /\ LET cs == Checks(Trace[l])
           fs == SelectSeq(cs, LAMBDA c : ~c[2])
       IN /\ viol' = IF Len(viol) > 50 THEN viol
                     ELSE viol \o [i \in 1..Len(fs) |-> [line |-> l, i |-> l, op |-> Trace[l].op, prop |-> "C04", check |-> fs[i][1]]]
          /\ nchk' = nchk + Len(cs)
    /\ l' = l + 1

Spec == Init /\ [][Next]_vars

Report ==
    l = Len(Trace) + 1 =>
        PrintT(<<"RESULT", ToJson([lines |-> Len(Trace), checks |-> [C04 |-> nchk], violations |-> viol])>>)

TraceAccepted == TLCGet("stats").diameter - 1 = Len(Trace)
=============================================================================
