SPECIFICATION Spec
CONSTANTS
  MaxId = 3
  MaxGen = 1
  Comps = {0, 1}
  Rels = {1}
  Sized = {0}
  MaxRegs = 1
  CapIncC = 1
  MaxSteps = 2
  Ops = {"Create", "Remove", "Exchange", "SetVal", "SetRel", "BatchExchange", "BatchSetRel", "BatchRemove", "Reset", "Register", "Unregister"}
  EmitEvery = 1
VIEW View
CONSTRAINT Bound
INVARIANTS EmitPath Struct Flags CacheOK Refines IssuedOnce PanicAgrees CacheSelects
CHECK_DEADLOCK FALSE
