SPECIFICATION Spec
CONSTANTS
  MaxH = 3
  Comps = {0, 1, 2}
  Rels = {1, 2}
  Sized = {0, 1}
  MaxSeq = 1
  MaxOpen = 0
  MaxRegs = 0
  Vals = {1}
  MaxEmit = 0
VIEW View
INVARIANTS WellFormed OneRelation TargetNeedsRelation TargetWasIssued RelFilterSelects CachedSelectsSame
PROPERTY AP
CHECK_DEADLOCK FALSE
