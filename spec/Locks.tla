------------------------------- MODULE Locks -------------------------------
(***************************************************************************)
(* The world lock (ecs/util.go lockMask, ecs/pool.go bitPool): one bit per *)
(* open query out of TotalBits; released bits form an implicit LIFO list   *)
(* threaded through the `bits` array; `avail` is a counter of width        *)
(* CounterMod (the code's integer type), modelled literally.               *)
(* State: [held, bits, len, next, avail].                                  *)
(***************************************************************************)
EXTENDS Integers, Sequences, FiniteSets

LocksInit(totalBits) == [held |-> {}, bits |-> [i \in 1..totalBits |-> 0], len |-> 0, next |-> 0, avail |-> 0]

IsLocked(s) == s.held # {}

(* Lock: returns [ok, s, bit]; ok = FALSE models the panic "run out of bits". *)
Lock(s, totalBits, counterMod) ==
    IF s.avail = 0
    THEN IF s.len >= totalBits
         THEN [ok |-> FALSE, s |-> s, bit |-> -1]
         ELSE [ok |-> TRUE, bit |-> s.len,
               s |-> [s EXCEPT !.bits[s.len + 1] = s.len, !.len = s.len + 1, !.held = @ \cup {s.len}]]
    ELSE LET cur == s.next IN
         [ok |-> TRUE, bit |-> cur,
          s |-> [s EXCEPT !.next = s.bits[cur + 1], !.bits[cur + 1] = cur,
                          !.avail = (s.avail - 1) % counterMod, !.held = @ \cup {cur}]]

(* Unlock: ok = FALSE models the panic "unbalanced unlock". *)
Unlock(s, b, counterMod) ==
    IF b \notin s.held THEN [ok |-> FALSE, s |-> s]
    ELSE [ok |-> TRUE,
          s |-> [s EXCEPT !.held = @ \ {b}, !.next = b, !.bits[b + 1] = s.next,
                          !.avail = (s.avail + 1) % counterMod]]

LocksReset(s, totalBits) == [s EXCEPT !.held = {}, !.len = 0, !.next = 0, !.avail = 0]
=============================================================================
