------------------------------ MODULE MCMasks ------------------------------
(***************************************************************************)
(* Exhaustive check, for a scaled-down word layout (W words of B bits),    *)
(* that the word-by-word algorithms of ecs.Mask equal the set operations   *)
(* for every pair of masks, and that Set/Get/Not/Reset behave as sets.     *)
(***************************************************************************)
EXTENDS Masks

CONSTANTS W, B

VARIABLES a, b

N == W * B
All == 0 .. (N - 1)

Init == a \in SUBSET All /\ b \in SUBSET All

Next ==
    \/ \E i \in All, v \in BOOLEAN : a' = MSet(a, i, v) /\ b' = b
    \/ a' = MNot(a, N) /\ b' = b
    \/ a' = MReset(a) /\ b' = b
    \/ a' = b /\ b' = a

Spec == Init /\ [][Next]_<<a, b>>

WordViewAgrees ==
    /\ WAnd(a, b, W, B) = MAnd(a, b)
    /\ WOr(a, b, W, B) = MOr(a, b)
    /\ WXor(a, b, W, B) = MXor(a, b)
    /\ WNot(a, W, B) = MNot(a, N)
    /\ WContains(a, b, W, B) = MContains(a, b)
    /\ WContainsAny(a, b, W, B) = MContainsAny(a, b)
    /\ WIsZero(a, W, B) = MIsZero(a)

SetLaws ==
    /\ MXor(a, b) = MAnd(MOr(a, b), MNot(MAnd(a, b), N))
    /\ MContains(a, b) <=> MAnd(a, b) = b
    /\ MContainsAny(a, b) <=> ~MIsZero(MAnd(a, b))
    /\ MNot(MNot(a, N), N) = a
    /\ MTotalBitsSet(a) + MTotalBitsSet(MNot(a, N)) = N
    /\ \A i \in All : MGet(MSet(a, i, TRUE), i) /\ ~MGet(MSet(a, i, FALSE), i)
    /\ \A i, j \in All : i # j => MGet(MSet(a, i, TRUE), j) = MGet(a, j)

(* Filter semantics of masks: Mask.Matches, Without, Exclusive *)
FilterLaws ==
    /\ (b \subseteq a) = MContains(a, b)                                         \* All(b).Matches(a)
    /\ (a = b) = (MContains(a, b) /\ ~MContainsAny(a, MNot(b, N)))                \* b.Exclusive().Matches(a)
=============================================================================
