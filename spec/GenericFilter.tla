--------------------------- MODULE GenericFilter ---------------------------
(***************************************************************************)
(* The filter builder of the generic API (generic.Filter0 .. Filter12) as  *)
(* a state machine.  A builder for arity ar has the type parameters        *)
(* 0..ar-1 (component ids, in this order) and a configuration              *)
(*   with, optional, exclude, exclusive, rel, hasTarget, target, locked.   *)
(* C18: a query is always built from the configuration AS IT IS when the   *)
(* query is built - whether or not the filter was used before or is        *)
(* registered.  `compiled`/`cf` model the cache of the compiled filter the *)
(* implementation keeps (used by MCGeneric to check that every mutator     *)
(* invalidates it).                                                        *)
(***************************************************************************)
EXTENDS Integers, Sequences, FiniteSets

GFZero == <<0, 0>>

GFInit(ar) ==
    [ar |-> ar, with |-> {}, optional |-> {}, exclude |-> {}, exclusive |-> FALSE,
     rel |-> -1, hasTarget |-> FALSE, target |-> GFZero, locked |-> FALSE]

GFParams(f) == 0 .. (f.ar - 1)
(* the compiled include mask: type parameters and With components, minus the optional ones *)
(* (generic/compiled.go: toMaskOptional over all include ids) *)
GFInclude(f) == (GFParams(f) \cup f.with) \ f.optional

(* Builder methods: "" = accepted, "args" = panics. *)
GFBuildWhy(f, m, ids) ==
    CASE m \in {"With", "Optional", "WithRelation"} -> IF f.locked THEN "args" ELSE ""
      [] m = "Without" -> IF f.locked \/ f.exclusive THEN "args" ELSE ""
      [] m = "Exclusive" -> IF f.locked \/ f.exclude # {} THEN "args" ELSE ""
      [] OTHER -> ""

GFBuildStep(f, m, ids, hasTgt, tgt) ==
    CASE m = "With" -> [f EXCEPT !.with = @ \cup ids]
      [] m = "Optional" -> [f EXCEPT !.optional = @ \cup ids]
      [] m = "Without" -> [f EXCEPT !.exclude = @ \cup ids]
      [] m = "Exclusive" -> [f EXCEPT !.exclusive = TRUE]
      [] m = "WithRelation" ->
            IF hasTgt THEN [f EXCEPT !.rel = CHOOSE c \in ids : TRUE, !.target = tgt, !.hasTarget = TRUE]
            ELSE [f EXCEPT !.rel = CHOOSE c \in ids : TRUE]

(* Compilation fails (panics) if the relation component is not required by the filter or is not a relation type. *)
GFCompileWhy(f, rels) == IF f.rel # -1 /\ ~(f.rel \in GFInclude(f) /\ f.rel \in rels) THEN "args" ELSE ""

GFRegisterWhy(f, rels) == IF f.locked THEN "args" ELSE GFCompileWhy(f, rels)
GFUnregisterWhy(f) == IF f.locked THEN "" ELSE "args"

GFQueryWhy(f, rels, hasTgt) ==
    IF GFCompileWhy(f, rels) # "" /\ ~f.locked THEN "args"
    ELSE IF hasTgt /\ (f.locked \/ f.hasTarget) THEN "args"
    ELSE ""

(* The configuration as a core filter (records as in ArcheAbs: k, ids, exc, tgt, reg, subs). *)
RECURSIVE SetSeq(_)
SetSeq(S) == IF S = {} THEN <<>>
             ELSE LET m == CHOOSE x \in S : \A y \in S : x <= y IN <<m>> \o SetSeq(S \ {m})
GFCore(f) ==
    IF f.exclusive
    THEN [k |-> "excl", ids |-> SetSeq(GFInclude(f)), exc |-> <<>>, tgt |-> GFZero, reg |-> -1, subs |-> <<>>]
    ELSE [k |-> "mf", ids |-> SetSeq(GFInclude(f)), exc |-> SetSeq(f.exclude), tgt |-> GFZero, reg |-> -1, subs |-> <<>>]

GFFilter(f, hasTgt, tgt) ==
    IF f.rel # -1 /\ (f.hasTarget \/ hasTgt)
    THEN [k |-> "rel", ids |-> <<>>, exc |-> <<>>, tgt |-> IF f.hasTarget THEN f.target ELSE tgt, reg |-> -1, subs |-> << GFCore(f) >>]
    ELSE GFCore(f)
=============================================================================
