SPECIFICATION Spec
CONSTANTS
  TotalBits = 256
  Chunk = 16
  Width = 65536
INVARIANTS LayoutCoversIds DenseUpToLimit
PROPERTY OverLimitRejected
CHECK_DEADLOCK FALSE
