----------------------------- MODULE ArcheAbs -----------------------------
(***************************************************************************)
(* Layer 1 of the arche specification: the observable semantics of an      *)
(* ecs.World as pure step operators over an abstract world.                *)
(*                                                                         *)
(* An abstract world is a record                                           *)
(*   alive  : set of entity handles <<id, gen>>                            *)
(*   iss    : sequence of handles issued since creation / the last Reset   *)
(*   comps  : [alive -> SUBSET Id]      component set per entity           *)
(*   vals   : [alive -> [Id -> Int]]    value per (sized) component        *)
(*   tgt    : [alive -> Handle]         relation target (Zero if none)     *)
(*   res    : [present resource ids -> token]                              *)
(*   open   : [open query ids -> query record]                             *)
(*   nq     : number of held queries ever opened                           *)
(*   regs   : sequence of [f, live] registered filters                     *)
(*   cfg    : [comps, rels, sized, nres, totalBits, lst]                   *)
(*   pool   : the entity pool as DumpEntities exposes it (EntityPool.tla)  *)
(*                                                                         *)
(* Handles returned by creation calls are INPUTS of the step operators     *)
(* (constrained by Fresh, never predicted here): this layer is free of     *)
(* allocation and ordering policy and is what the properties talk about.   *)
(* Module EntityPool predicts the handles, module Arche the hidden state.  *)
(***************************************************************************)
EXTENDS Integers, Sequences, FiniteSets, TLC, EntityPool, GenericFilter

Zero == <<0, 0>>

Range(s) == { s[i] : i \in DOMAIN s }
NoDup(s) == Cardinality(Range(s)) = Len(s)
Min2(a, b) == IF a < b THEN a ELSE b

(* Event type bits (ecs/event). *)
EvCreated == 1
EvRemoved == 2
EvCompAdded == 4
EvCompRemoved == 8
EvRelChanged == 16
EvTargetChanged == 32

Bit(b, v) == IF b THEN v ELSE 0
EventBits(created, removed, added, remd, relCh, tgtCh) ==
    Bit(created, EvCreated) + Bit(removed, EvRemoved) + Bit(added, EvCompAdded)
    + Bit(remd, EvCompRemoved) + Bit(relCh, EvRelChanged) + Bit(tgtCh, EvTargetChanged)

HasBit(x, b) == (x \div b) % 2 = 1
BitsOf(x) == { b \in {1, 2, 4, 8, 16, 32} : HasBit(x, b) }

---------------------------------------------------------------------------
(* Worlds *)

EmptyFun == [x \in {} |-> 0]

InitWorld(cfg) ==
    [ alive |-> {}, iss |-> <<>>, comps |-> EmptyFun, vals |-> EmptyFun, tgt |-> EmptyFun,
      res |-> EmptyFun, open |-> EmptyFun, nq |-> 0, regs |-> <<>>, cfg |-> cfg, pool |-> PoolInit, gfs |-> <<>> ]

Locked(w) == DOMAIN w.open # {}

RelOf(w, cs) == IF cs \cap w.cfg.rels = {} THEN -1 ELSE CHOOSE c \in cs \cap w.cfg.rels : TRUE
HasRel(w, h) == w.comps[h] \cap w.cfg.rels # {}
TargetOK(w, t) == t = Zero \/ t \in w.alive

(* Legal component list for creation: pairwise distinct, registered, at most one relation. *)
IdsLegal(w, ids) ==
    /\ NoDup(ids)
    /\ Range(ids) \subseteq w.cfg.comps
    /\ Cardinality(Range(ids) \cap w.cfg.rels) <= 1

(* A new handle must differ from every handle issued since creation/reset, *)
(* must not reuse the id of an alive entity, and is never the zero entity. *)
Fresh(w, h) ==
    /\ h \notin Range(w.iss)
    /\ h[1] # 0
    /\ \A a \in w.alive : a[1] # h[1]

FreshAll(w, hs) ==
    /\ NoDup(hs)
    /\ \A i \in DOMAIN hs : Fresh(w, hs[i])
    /\ \A i, j \in DOMAIN hs : i # j => hs[i][1] # hs[j][1]

ZeroVals(w, cs) == [c \in cs \cap w.cfg.sized |-> 0]

(* Values from parallel sequences ids/vals, zero where no value is given. *)
ValsFrom(w, ids, vs) ==
    [c \in Range(ids) \cap w.cfg.sized |->
        LET i == CHOOSE k \in DOMAIN ids : ids[k] = c IN
        IF i \in DOMAIN vs THEN vs[i] ELSE 0]

AddEntities(w, hs, cs, vl, t) ==
    LET new == Range(hs) IN
    [w EXCEPT !.alive = @ \cup new,
              !.iss   = @ \o hs,
              !.comps = [h \in w.alive \cup new |-> IF h \in new THEN cs ELSE w.comps[h]],
              !.vals  = [h \in w.alive \cup new |-> IF h \in new THEN vl ELSE w.vals[h]],
              !.tgt   = [h \in w.alive \cup new |-> IF h \in new THEN t ELSE w.tgt[h]]]

DropEntities(w, dead) ==
    LET keep == w.alive \ dead IN
    [w EXCEPT !.alive = keep,
              !.comps = [h \in keep |-> w.comps[h]],
              !.vals  = [h \in keep |-> w.vals[h]],
              !.tgt   = [h \in keep |-> w.tgt[h]]]

---------------------------------------------------------------------------
(* Filters.  A filter is a record [k, ids, exc, tgt, reg, subs].            *)

RECURSIVE MatchesMask(_, _)
MatchesMask(f, m) ==
    LET I == Range(f.ids) IN
    CASE f.k = "all"    -> I \subseteq m
      [] f.k = "mf"     -> I \subseteq m /\ Range(f.exc) \cap m = {}
      [] f.k = "excl"   -> m = I
      [] f.k = "any"    -> I \cap m # {}
      [] f.k = "noneof" -> I \cap m = {}
      [] f.k = "anynot" -> ~(I \subseteq m)
      [] f.k = "and"    -> MatchesMask(f.subs[1], m) /\ MatchesMask(f.subs[2], m)
      [] f.k = "or"     -> MatchesMask(f.subs[1], m) \/ MatchesMask(f.subs[2], m)
      [] f.k = "xor"    -> MatchesMask(f.subs[1], m) # MatchesMask(f.subs[2], m)
      [] f.k = "not"    -> ~MatchesMask(f.subs[1], m)
      [] f.k = "rel"    -> MatchesMask(f.subs[1], m)
      [] f.k = "cached" -> MatchesMask(f.subs[1], m)

(* The filter that decides: a registered filter matches exactly like its original. *)
Core(f) == IF f.k = "cached" THEN f.subs[1] ELSE f

MatchesEntity(w, f, h) ==
    LET c == Core(f) IN
    /\ MatchesMask(c, w.comps[h])
    /\ c.k = "rel" => (HasRel(w, h) /\ w.tgt[h] = c.tgt)

QuerySet(w, f) == { h \in w.alive : MatchesEntity(w, f, h) }

(* A relation filter whose component part also matches an alive entity      *)
(* WITHOUT relation component: selection is unspecified (known finding E17).*)
OpenRelCase(w, f) ==
    LET c == Core(f) IN
    /\ c.k = "rel"
    /\ \E h \in w.alive : ~HasRel(w, h) /\ MatchesMask(c.subs[1], w.comps[h])

FilterUsable(w, f) == f.k = "cached" => (f.reg + 1 \in DOMAIN w.regs /\ w.regs[f.reg + 1].live)

---------------------------------------------------------------------------
(* Exchange of components on one entity (World.Add/Remove/Exchange/Assign,  *)
(* Builder.Add, Relations.Exchange and the per-entity part of batch calls). *)

ExNew(w, h, add, rem) == (w.comps[h] \ Range(rem)) \cup Range(add)

(* relGiven: a relation component and a target are passed to the core.      *)
ExLegalOn(w, h, add, rem, relGiven, rel, t) ==
    IF add = <<>> /\ rem = <<>> THEN ~relGiven
    ELSE
      /\ NoDup(rem) /\ Range(rem) \subseteq w.comps[h]
      /\ NoDup(add) /\ Range(add) \cap w.comps[h] = {}
      /\ Range(add) \subseteq w.cfg.comps
      /\ LET new == ExNew(w, h, add, rem) IN
         /\ Cardinality(new \cap w.cfg.rels) <= 1
         /\ relGiven => (rel \in new /\ rel \in w.cfg.rels /\ TargetOK(w, t))

ExTarget(w, h, add, rem, relGiven, t) ==
    LET new == ExNew(w, h, add, rem) IN
    IF new \cap w.cfg.rels = {} THEN Zero
    ELSE IF relGiven THEN t
    ELSE IF Range(rem) \cap w.cfg.rels # {} THEN Zero
    ELSE w.tgt[h]

ExVals(w, h, add, rem) ==
    LET new == ExNew(w, h, add, rem) IN
    [c \in new \cap w.cfg.sized |-> IF c \in w.comps[h] THEN w.vals[h][c] ELSE 0]

(* Apply an exchange to every entity of the set M (M = {h} for single calls). *)
ExApply(w, M, add, rem, relGiven, t) ==
    IF add = <<>> /\ rem = <<>> THEN w
    ELSE
    [w EXCEPT !.comps = [h \in w.alive |-> IF h \in M THEN ExNew(w, h, add, rem) ELSE w.comps[h]],
              !.vals  = [h \in w.alive |-> IF h \in M THEN ExVals(w, h, add, rem) ELSE w.vals[h]],
              !.tgt   = [h \in w.alive |-> IF h \in M THEN ExTarget(w, h, add, rem, relGiven, t) ELSE w.tgt[h]]]

SetVals(w, h, ids, vs) ==
    [w EXCEPT !.vals[h] = [c \in DOMAIN w.vals[h] |->
        IF c \in Range(ids) THEN ValsFrom(w, ids, vs)[c] ELSE w.vals[h][c]]]

---------------------------------------------------------------------------
(* Events.  The "core" of an event is what the operation determines; the    *)
(* delivery-time facts (lock state, aliveness, mask, values, target) are    *)
(* checked separately against the world at delivery time.                   *)

EvCore(h, added, removed, addedIDs, removedIDs, oldRel, newRel, oldTgt, bits) ==
    [e |-> h, added |-> added, removed |-> removed, addedIDs |-> addedIDs, removedIDs |-> removedIDs,
     oldRel |-> oldRel, newRel |-> newRel, oldTgt |-> oldTgt, bits |-> bits]

CreateEvent(w, h, ids) ==
    LET cs == Range(ids) r == RelOf(w, cs) IN
    EvCore(h, cs, {}, cs, {}, -1, r, Zero,
           EventBits(TRUE, FALSE, cs # {}, FALSE, r # -1, r # -1))

RemoveEvent(w, h) ==
    LET cs == w.comps[h] r == RelOf(w, cs) IN
    EvCore(h, {}, cs, {}, cs, r, -1, w.tgt[h],
           EventBits(FALSE, TRUE, FALSE, cs # {}, r # -1, r # -1))

(* w: world before, w2: world after the exchange. *)
ExchangeEvent(w, w2, h, add, rem) ==
    LET old == w.comps[h] new == w2.comps[h]
        oldRel == RelOf(w, old) newRel == RelOf(w, new)
        relCh == oldRel # newRel
        tgtCh == w.tgt[h] # w2.tgt[h] IN
    EvCore(h, new \ old, old \ new, Range(add), Range(rem), oldRel, newRel, w.tgt[h],
           EventBits(FALSE, FALSE, add # <<>>, rem # <<>>, relCh, relCh \/ tgtCh))

TargetEvent(w, h, rel) ==
    EvCore(h, {}, {}, {}, {}, rel, rel, w.tgt[h], EvTargetChanged)

(* The documented subscription rule (ecs/util.go subscribes, listener package). *)
Subscribes(lst, ev) ==
    LET trig == BitsOf(lst.S) \cap BitsOf(ev.bits) IN
    /\ lst.on
    /\ trig # {}
    /\ \/ ~lst.hasC
       \/ /\ trig \cap {EvRelChanged, EvTargetChanged} # {}
          /\ (ev.oldRel \in lst.C \/ ev.newRel \in lst.C)
       \/ /\ trig \cap {EvCreated, EvCompAdded} # {}
          /\ lst.C \cap ev.added # {}
       \/ /\ trig \cap {EvRemoved, EvCompRemoved} # {}
          /\ lst.C \cap ev.removed # {}

Delivered(w, evs) == { ev \in evs : Subscribes(w.cfg.lst, ev) }
DeliveredTo(lst, evs) == { ev \in evs : Subscribes(lst, ev) }

(* listener.Dispatch: the world sees the union of the sub-listeners (event types OR-ed,      *)
(* components OR-ed, or unrestricted as soon as one sub-listener is), then every sub-listener *)
(* applies its own rule.                                                                      *)
UnionListener(subs) ==
    [on |-> TRUE,
     S |-> LET B == UNION { BitsOf(subs[i].S) : i \in DOMAIN subs } IN
           Bit(1 \in B, 1) + Bit(2 \in B, 2) + Bit(4 \in B, 4) + Bit(8 \in B, 8) + Bit(16 \in B, 16) + Bit(32 \in B, 32),
     C |-> UNION { subs[i].C : i \in DOMAIN subs },
     hasC |-> \A i \in DOMAIN subs : subs[i].hasC]
DispatchDelivers(subs, i, ev) == Subscribes(UnionListener(subs), ev) /\ Subscribes(subs[i], ev)

---------------------------------------------------------------------------
(* Operations.  For every operation:                                        *)
(*   XWhy(w, ...)   = "" when the call is legal in world w, else the class  *)
(*                    of the reason ("locked", "dead-target", "args");      *)
(*                    an illegal call panics and - for calls addressing a   *)
(*                    single entity - leaves the world unchanged;           *)
(*   XStep(w, ...)  = the world after a legal call;                         *)
(*   XEvents(...)   = the event cores a legal call emits.                   *)

First(whys) == LET nz == SelectSeq(whys, LAMBDA x : x # "") IN IF nz = <<>> THEN "" ELSE nz[1]
LockWhy(w) == IF Locked(w) THEN "locked" ELSE ""

(* Creation (World.NewEntity/NewEntityWith, Builder.New/NewBatch/NewBatchQ). *)
(* hasRel: Builder.WithRelation was called; hasTgt: a target was passed.     *)
CreateWhy(w, ids, hasRel, rel, hasTgt, t, n) ==
    First(<< IF hasTgt /\ ~hasRel THEN "args" ELSE "",
             LockWhy(w),
             IF n < 1 THEN "args" ELSE "",
             IF hasTgt /\ ~TargetOK(w, t) THEN "dead-target" ELSE "",
             IF ~IdsLegal(w, ids) THEN "args" ELSE "",
             IF hasTgt /\ ~(rel \in Range(ids) /\ rel \in w.cfg.rels) THEN "args" ELSE "" >>)

CreateStep(w, hs, ids, vals, hasTgt, t) ==
    AddEntities(w, hs, Range(ids), ValsFrom(w, ids, vals), IF hasTgt THEN t ELSE Zero)

CreateEvents(w2, hs, ids) == { CreateEvent(w2, hs[i], ids) : i \in DOMAIN hs }

RemoveWhy(w, h) == First(<< LockWhy(w), IF h \notin w.alive THEN "args" ELSE "" >>)
RemoveStep(w, h) == DropEntities(w, {h})

(* Exchange on one entity; relGiven == hasRel /\ hasTgt. *)
ExchangeWhy(w, h, add, rem, hasRel, rel, hasTgt, t) ==
    LET relGiven == hasRel /\ hasTgt IN
    First(<< IF hasTgt /\ ~hasRel THEN "args" ELSE "",
             LockWhy(w),
             IF h \notin w.alive THEN "args" ELSE "",
             IF h \in w.alive /\ relGiven /\ ~TargetOK(w, t)
                /\ ExLegalOn(w, h, add, rem, relGiven, rel, Zero) THEN "dead-target" ELSE "",
             IF h \in w.alive /\ ~ExLegalOn(w, h, add, rem, relGiven, rel, t) THEN "args" ELSE "" >>)

ExchangeStep(w, h, add, rem, relGiven, t, vals) ==
    LET w1 == ExApply(w, {h}, add, rem, relGiven, t) IN
    IF vals # <<>> THEN SetVals(w1, h, add, vals) ELSE w1

ExchangeEvents(w, w2, h, add, rem) ==
    IF add = <<>> /\ rem = <<>> THEN {} ELSE { ExchangeEvent(w, w2, h, add, rem) }

SetWhy(w, h, c) == IF h \in w.alive /\ c \in w.comps[h] THEN "" ELSE "args"
SetStep(w, h, c, v) == IF c \in w.cfg.sized THEN [w EXCEPT !.vals[h][c] = v] ELSE w

SetRelWhy(w, h, rel, t) ==
    First(<< LockWhy(w),
             IF h \notin w.alive THEN "args" ELSE "",
             IF ~TargetOK(w, t) THEN "dead-target" ELSE "",
             IF h \in w.alive /\ ~(rel \in w.comps[h] /\ rel \in w.cfg.rels) THEN "args" ELSE "" >>)
SetRelStep(w, h, t) == [w EXCEPT !.tgt[h] = t]
SetRelEvents(w, h, rel, t) == IF w.tgt[h] # t THEN { TargetEvent(w, h, rel) } ELSE {}

(* Batch exchange over the entities matching filter f when the call is made. *)
BatchSet(w, f) == IF FilterUsable(w, f) THEN QuerySet(w, f) ELSE {}

BatchExUpWhy(w, f, add, rem, hasRel, t) ==
    LET noop == add = <<>> /\ rem = <<>> IN
    First(<< LockWhy(w),
             IF noop /\ hasRel THEN "args" ELSE "",
             IF ~FilterUsable(w, f) THEN "args" ELSE "",
             IF ~noop /\ hasRel /\ ~TargetOK(w, t) THEN "dead-target" ELSE "" >>)

BatchExAllLegal(w, M, add, rem, hasRel, rel, t) ==
    \A h \in M : ExLegalOn(w, h, add, rem, hasRel, rel, t)

BatchExStep(w, M, add, rem, hasRel, t) == ExApply(w, M, add, rem, hasRel, t)
BatchExEvents(w, w2, M, add, rem) ==
    IF add = <<>> /\ rem = <<>> THEN {} ELSE { ExchangeEvent(w, w2, h, add, rem) : h \in M }

BatchSetRelUpWhy(w, f, t) ==
    First(<< LockWhy(w),
             IF ~TargetOK(w, t) THEN "dead-target" ELSE "",
             IF ~FilterUsable(w, f) THEN "args" ELSE "" >>)
(* tables that already have the requested target are skipped without looking at the component; *)
(* every other matching entity must carry exactly this relation component                       *)
BatchSetRelAllRel(w, M, rel, t) == \A h \in M : w.tgt[h] = t \/ RelOf(w, w.comps[h]) = rel
BatchSetRelChanged(w, M, t) == { h \in M : w.tgt[h] # t }
BatchSetRelStep(w, M, t) == [w EXCEPT !.tgt = [h \in w.alive |-> IF h \in M THEN t ELSE w.tgt[h]]]
BatchSetRelEvents(w, M, rel, t) == { TargetEvent(w, h, rel) : h \in BatchSetRelChanged(w, M, t) }

BatchRemoveUpWhy(w, f) == First(<< LockWhy(w), IF ~FilterUsable(w, f) THEN "args" ELSE "" >>)
BatchRemoveStep(w, M) == DropEntities(w, M)
BatchRemoveEvents(w, M) == { RemoveEvent(w, h) : h \in M }

ResetStep(w) == [InitWorld(w.cfg) EXCEPT !.regs = w.regs, !.nq = w.nq, !.gfs = w.gfs]

(* LoadEntities: only into a world that has no entity slots (fresh or reset). *)
LoadWhy(w) == First(<< LockWhy(w), IF Len(w.pool.ents) > 1 \/ w.pool.avail > 0 THEN "args" ELSE "" >>)
LoadStep(w, d) ==
    LET p == [ents |-> d.ents, next |-> d.next, avail |-> d.avail]
        A == PAliveSet(p) IN
    [w EXCEPT !.alive = A, !.comps = [h \in A |-> {}], !.vals = [h \in A |-> EmptyFun],
              !.tgt = [h \in A |-> Zero], !.pool = p]

ResWhy(w, add, r) == IF add = (r \in DOMAIN w.res) THEN "args" ELSE ""
ResStep(w, add, r, tok) ==
    IF add THEN [w EXCEPT !.res = [x \in DOMAIN w.res \cup {r} |-> IF x = r THEN tok ELSE w.res[x]]]
    ELSE [w EXCEPT !.res = [x \in DOMAIN w.res \ {r} |-> w.res[x]]]

(* Held queries *)
OpenHeldP(w, order, pend, prop) ==
    [w EXCEPT !.open = [q \in DOMAIN w.open \cup {w.nq} |->
                            IF q = w.nq THEN [order |-> order, pos |-> 0, pend |-> pend, prop |-> prop] ELSE w.open[q]],
              !.nq = @ + 1]
OpenHeld(w, order, pend) == OpenHeldP(w, order, pend, "C03")

CloseHeld(w, q) == [w EXCEPT !.open = [x \in DOMAIN w.open \ {q} |-> w.open[x]]]

---------------------------------------------------------------------------
(* Projection used by observation checks. *)

ValPairs(w, h) == { <<c, w.vals[h][c]>> : c \in DOMAIN w.vals[h] }

=============================================================================
