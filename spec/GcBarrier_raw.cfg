SPECIFICATION Spec
CONSTANTS
  Payloads = {"p1", "p2"}
  TypedCopy = FALSE
  TypedZero = FALSE
INVARIANT NoLostObject
CHECK_DEADLOCK FALSE
