------------------------------ MODULE TraceEq ------------------------------
(***************************************************************************)
(* Determinism (C13): two traces recorded by executing the same symbolic   *)
(* schedule in different processes (different GC settings, GC forced at    *)
(* arbitrary points, different GOMAXPROCS) must be identical line by line: *)
(* same handles, same query iteration order, same event sequence, same     *)
(* return values, same entity-pool dumps.                                  *)
(***************************************************************************)
EXTENDS Integers, Sequences, Json, IOUtils, TLC

T1 == ndJsonDeserialize(IOEnv.TRACE)
T2 == ndJsonDeserialize(IOEnv.TRACE2)

VARIABLES l, viol
vars == <<l, viol>>

Fields == {"op", "api", "args", "res", "events", "obs", "panel", "qinfo", "pos", "sweep", "dump", "a", "b", "shape"}

Diff(x, y) == { f \in Fields : (f \in DOMAIN x) # (f \in DOMAIN y) \/ (f \in DOMAIN x /\ x[f] # y[f]) }

Init == l = 1 /\ viol = <<>>

Next ==
    /\ l <= Len(T1)
    /\ viol' = IF Len(viol) > 20 THEN viol
               ELSE IF l > Len(T2) THEN Append(viol, [line |-> l, i |-> T1[l].i, op |-> T1[l].op, prop |-> "C13", check |-> "second-trace-shorter"])
               ELSE LET d == Diff(T1[l], T2[l]) IN
                    IF d = {} THEN viol
                    ELSE Append(viol, [line |-> l, i |-> T1[l].i, op |-> T1[l].op, prop |-> "C13",
                                       check |-> "same-schedule-different-" \o (CHOOSE f \in d : TRUE)])
    /\ l' = l + 1

Spec == Init /\ [][Next]_vars

Report ==
    l = Len(T1) + 1 =>
        PrintT(<<"RESULT", ToJson([lines |-> Len(T1), checks |-> [C13 |-> Len(T1)],
                                   violations |-> IF Len(T1) = Len(T2) THEN viol
                                                  ELSE Append(viol, [line |-> Len(T1), i |-> 0, op |-> "end", prop |-> "C13", check |-> "trace-lengths-differ"])])>>)

TraceAccepted == TLCGet("stats").diameter - 1 = Len(T1)
=============================================================================
