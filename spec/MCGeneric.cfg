SPECIFICATION Spec
CONSTANTS
  Ar = 2
  Comps = {0, 1, 2}
  Rels = {2}
  ResetOnExclusive = TRUE
INVARIANTS QueryUsesCurrentConfiguration CompiledIsCurrent
CONSTRAINT Bound
CHECK_DEADLOCK FALSE
