------------------------------ MODULE MCLocks ------------------------------
(* All interleavings of opening and closing queries, for a scaled-down number of bits. *)
EXTENDS Locks, TLC

CONSTANTS TotalBits, CounterMod, MaxRounds

VARIABLES s, open, rounds, lastOK

vars == <<s, open, rounds, lastOK>>

Init == s = LocksInit(TotalBits) /\ open = {} /\ rounds = 0 /\ lastOK = TRUE

Open ==
    /\ rounds < MaxRounds
    /\ LET r == Lock(s, TotalBits, CounterMod) IN
       /\ s' = r.s /\ lastOK' = r.ok
       /\ open' = IF r.ok THEN open \cup {r.bit} ELSE open
       /\ rounds' = rounds + 1

Close ==
    \E b \in open :
        LET r == Unlock(s, b, CounterMod) IN
        /\ s' = r.s /\ lastOK' = r.ok /\ open' = open \ {b} /\ rounds' = rounds

Next == Open \/ Close
Spec == Init /\ [][Next]_vars
View == <<s, open>>

(* C09: locked exactly while a query is open; one distinct bit per query; *)
LockedIffOpen == IsLocked(s) <=> open # {}
OneBitPerQuery == s.held = open /\ open \subseteq 0 .. (TotalBits - 1)
(* up to TotalBits queries at a time, after any number of earlier rounds; releasing never fails. *)
UpToTotalBits == [][(Cardinality(open) < TotalBits /\ rounds' = rounds + 1) => lastOK']_vars
FullRejects == [][(Cardinality(open) = TotalBits /\ rounds' = rounds + 1) => ~lastOK']_vars
ReleaseWorks == [][(rounds' = rounds) => lastOK']_vars
=============================================================================
