----------------------------- MODULE MCGeneric -----------------------------
(***************************************************************************)
(* All sequences of builder calls and queries on a generic filter, with    *)
(* the implementation's cache of the compiled filter (`compiled`, `cf`):   *)
(* whenever a query is built, the filter it uses is the one compiled from  *)
(* the CURRENT configuration (C18).  ResetOnExclusive = FALSE models the   *)
(* code before the repair of Exclusive().                                  *)
(***************************************************************************)
EXTENDS GenericFilter, TLC

CONSTANTS Ar, Comps, Rels, ResetOnExclusive

Targets == {GFZero, <<1, 0>>}

VARIABLES f, compiled, cf, lastQuery

vars == <<f, compiled, cf, lastQuery>>

Snapshot(x, hasTgt, tgt) == GFFilter(x, hasTgt, tgt)

Init == f = GFInit(Ar) /\ compiled = FALSE /\ cf = GFCore(GFInit(Ar)) /\ lastQuery = [used |-> GFCore(GFInit(Ar)), want |-> GFCore(GFInit(Ar))]

Mutate(m, ids, hasTgt, tgt, reset) ==
    /\ GFBuildWhy(f, m, ids) = ""
    /\ f' = GFBuildStep(f, m, ids, hasTgt, tgt)
    /\ compiled' = IF reset THEN FALSE ELSE compiled
    /\ UNCHANGED <<cf, lastQuery>>

With == \E c \in Comps : Mutate("With", {c}, FALSE, GFZero, TRUE)
Optional == \E c \in GFParams(f) : Mutate("Optional", {c}, FALSE, GFZero, TRUE)
Without == \E c \in Comps : Mutate("Without", {c}, FALSE, GFZero, TRUE)
Exclusive == Mutate("Exclusive", {}, FALSE, GFZero, ResetOnExclusive)
WithRelation == \E r \in Rels, ht \in BOOLEAN, t \in Targets : Mutate("WithRelation", {r}, ht, t, TRUE)

(* Query: compile if needed, then build the filter; a per-query target wraps the compiled mask filter. *)
Query ==
    \E ht \in BOOLEAN, t \in Targets :
        /\ GFQueryWhy(f, Rels, ht) = ""
        /\ ~(ht /\ f.rel = -1)
        /\ LET c2 == IF compiled THEN cf ELSE Snapshot(f, FALSE, GFZero)
               core == IF c2.k = "rel" THEN c2.subs[1] ELSE c2
               used == IF ht THEN [k |-> "rel", ids |-> <<>>, exc |-> <<>>, tgt |-> t, reg |-> -1, subs |-> <<core>>] ELSE c2
           IN /\ cf' = c2 /\ compiled' = TRUE
              /\ lastQuery' = [used |-> used, want |-> Snapshot(f, ht, t)]
        /\ f' = f

Register == /\ GFRegisterWhy(f, Rels) = ""
            /\ cf' = (IF compiled THEN cf ELSE Snapshot(f, FALSE, GFZero)) /\ compiled' = TRUE
            /\ f' = [f EXCEPT !.locked = TRUE] /\ UNCHANGED lastQuery
Unregister == /\ GFUnregisterWhy(f) = "" /\ f' = [f EXCEPT !.locked = FALSE] /\ UNCHANGED <<compiled, cf, lastQuery>>

Next == With \/ Optional \/ Without \/ Exclusive \/ WithRelation \/ Query \/ Register \/ Unregister
Spec == Init /\ [][Next]_vars

Bound == Cardinality(f.with) + Cardinality(f.exclude) <= 2

(* C18: every query uses the filter of the current configuration. *)
QueryUsesCurrentConfiguration == lastQuery.used = lastQuery.want
CompiledIsCurrent == compiled => cf = Snapshot(f, FALSE, GFZero)
=============================================================================
