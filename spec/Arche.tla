------------------------------- MODULE Arche -------------------------------
(***************************************************************************)
(* Layer 2 of the arche specification: the implementation-shaped state     *)
(* machine.  One operator per code path of ecs/world.go and                *)
(* ecs/world_internal.go, written after the code (same order of checks,    *)
(* mutations and cleanup calls; DESIGN.md appendix B), over the hidden     *)
(* state that the verif hook World.VerifShape() exposes:                   *)
(*                                                                         *)
(*   pool   entity pool (EntityPool.tla)                                   *)
(*   eidx   entity index: eidx[id+1] = <<node, table, row>>, <<-1,-1,0>>   *)
(*          for "no table"                                                 *)
(*   tflag  ids flagged as potential relation targets                      *)
(*   nodes  archetype graph nodes in creation order; node n is nodes[n+1]: *)
(*          [mask, rel, active, tbls, free]; table t of a node is          *)
(*          tbls[t+1]: [tgt, active, rows, cap]; a row is [e, v] (entity   *)
(*          and its component values); free is the LIFO stack of retired   *)
(*          table indices                                                  *)
(*   cache  registered filters in slice order: [fid, f, list, hasIdx, idx] *)
(*          list = table references <<node, table>>; idx = the lazily      *)
(*          built position index (set of <<node, table, position>>)        *)
(*   fidNext, cfg = [rels, sized, capInc, relCapInc]                       *)
(*                                                                         *)
(* Indices are 0-based as in the Go code.  Every operator returns a record *)
(* with the new state and, where the code can panic, ok = FALSE together   *)
(* with the state as the code leaves it (e.g. graph nodes created before   *)
(* the panic).  MCArche.tla model-checks this layer against layer 1        *)
(* (refinement) and its structural invariants; TraceAbs.tla uses it for    *)
(* exact one-step conformance with the recorded hidden state.              *)
(***************************************************************************)
EXTENDS Integers, Sequences, FiniteSets, TLC, EntityPool

LZero == <<0, 0>>
LRange(s) == { s[i] : i \in DOMAIN s }
NoRef == <<-1, -1, 0>>

---------------------------------------------------------------------------
(* Basics *)

Node(s, n) == s.nodes[n + 1]
Tbl(s, n, t) == s.nodes[n + 1].tbls[t + 1]
SetTbl(s, n, t, tb) == [s EXCEPT !.nodes[n + 1].tbls[t + 1] = tb]

LAlive(s, h) == PAlive(s.pool, h)

CapInc(s, rel) == IF rel # -1 /\ s.cfg.relCapInc >= 1 THEN s.cfg.relCapInc ELSE s.cfg.capInc
CapFor(required, inc) == inc * ((required + inc - 1) \div inc)

RelOfMask(s, m) == IF m \cap s.cfg.rels = {} THEN -1 ELSE CHOOSE c \in m \cap s.cfg.rels : TRUE

NodeIndex(s, m) ==
    IF \E i \in DOMAIN s.nodes : s.nodes[i].mask = m
    THEN (CHOOSE i \in DOMAIN s.nodes : s.nodes[i].mask = m) - 1
    ELSE -1

(* findOrCreateArchetypeSlow / createArchetypeNode *)
EnsureNode(s, m, rel) ==
    IF NodeIndex(s, m) # -1 THEN [s |-> s, n |-> NodeIndex(s, m)]
    ELSE [s |-> [s EXCEPT !.nodes = Append(@, [mask |-> m, rel |-> rel, active |-> FALSE, tbls |-> <<>>, free |-> <<>>])],
          n |-> Len(s.nodes)]

---------------------------------------------------------------------------
(* Filter cache (ecs/cache.go).  Filters are the records of ArcheAbs.       *)

RECURSIVE LMatchesMask(_, _)
LMatchesMask(f, m) ==
    LET I == LRange(f.ids) IN
    CASE f.k = "all"    -> I \subseteq m
      [] f.k = "mf"     -> I \subseteq m /\ LRange(f.exc) \cap m = {}
      [] f.k = "excl"   -> m = I
      [] f.k = "any"    -> I \cap m # {}
      [] f.k = "noneof" -> I \cap m = {}
      [] f.k = "anynot" -> ~(I \subseteq m)
      [] f.k = "and"    -> LMatchesMask(f.subs[1], m) /\ LMatchesMask(f.subs[2], m)
      [] f.k = "or"     -> LMatchesMask(f.subs[1], m) \/ LMatchesMask(f.subs[2], m)
      [] f.k = "xor"    -> LMatchesMask(f.subs[1], m) # LMatchesMask(f.subs[2], m)
      [] f.k = "not"    -> ~LMatchesMask(f.subs[1], m)
      [] f.k = "rel"    -> LMatchesMask(f.subs[1], m)
      [] f.k = "cached" -> LMatchesMask(f.subs[1], m)

(* Cache.addArchetype: for every entry whose filter matches the table's mask. *)
CacheAddEntry(s, e, n, t) ==
    LET nd == Node(s, n)
        tb == Tbl(s, n, t)
    IN IF ~LMatchesMask(e.f, nd.mask) THEN e
       ELSE IF nd.rel = -1 THEN [e EXCEPT !.list = Append(@, <<n, t>>)]
       ELSE IF e.f.k = "rel" /\ e.f.tgt # tb.tgt THEN e
       ELSE [e EXCEPT !.list = Append(@, <<n, t>>),
                      !.idx = IF e.hasIdx THEN @ \cup { <<n, t, Len(e.list)>> } ELSE @]

CacheAdd(s, n, t) == [s EXCEPT !.cache = [i \in DOMAIN s.cache |-> CacheAddEntry(s, s.cache[i], n, t)]]

(* Cache.removeArchetype: build the index lazily, then swap-remove. *)
IsRelTable(s, ref) == Node(s, ref[1]).rel # -1
BuildIdx(s, e) == { <<e.list[i][1], e.list[i][2], i - 1>> : i \in { j \in DOMAIN e.list : IsRelTable(s, e.list[j]) } }

CacheRemoveEntry(s, e, n, t) ==
    LET nd == Node(s, n)
        e1 == IF ~e.hasIdx /\ LMatchesMask(e.f, nd.mask) THEN [e EXCEPT !.hasIdx = TRUE, !.idx = BuildIdx(s, e)] ELSE e
        hit == { x \in e1.idx : x[1] = n /\ x[2] = t }
    IN IF hit = {} THEN e1
       ELSE LET pos == (CHOOSE x \in hit : TRUE)[3]
                last == Len(e1.list) - 1
                moved == e1.list[last + 1]
                l2 == IF pos = last THEN SubSeq(e1.list, 1, last)
                      ELSE [i \in 1..last |-> IF i = pos + 1 THEN moved ELSE e1.list[i]]
                i2 == IF pos = last THEN e1.idx \ hit
                      ELSE { x \in e1.idx \ hit : ~(x[1] = moved[1] /\ x[2] = moved[2]) } \cup { <<moved[1], moved[2], pos>> }
            IN [e1 EXCEPT !.list = l2, !.idx = i2]

CacheRemove(s, n, t) == [s EXCEPT !.cache = [i \in DOMAIN s.cache |-> CacheRemoveEntry(s, s.cache[i], n, t)]]

---------------------------------------------------------------------------
(* Tables *)

(* node.GetArchetype(target) *)
FindTable(s, n, tgt) ==
    LET nd == Node(s, n) IN
    IF nd.rel = -1 THEN (IF Len(nd.tbls) > 0 THEN 0 ELSE -1)
    ELSE IF \E i \in DOMAIN nd.tbls : nd.tbls[i].active /\ nd.tbls[i].tgt = tgt
         THEN (CHOOSE i \in DOMAIN nd.tbls : nd.tbls[i].active /\ nd.tbls[i].tgt = tgt) - 1
         ELSE -1

(* World.createArchetype: reuse the last retired table of a relation node, else append; then Cache.addArchetype. *)
CreateTable(s, n, tgt, cap) ==
    LET nd == Node(s, n) IN
    IF nd.rel # -1 /\ nd.free # <<>>
    THEN LET t == nd.free[Len(nd.free)]
             s1 == [s EXCEPT !.nodes[n + 1].free = SubSeq(@, 1, Len(@) - 1),
                             !.nodes[n + 1].tbls[t + 1].active = TRUE,
                             !.nodes[n + 1].tbls[t + 1].tgt = tgt]
         IN [s |-> CacheAdd(s1, n, t), t |-> t]
    ELSE LET t == Len(nd.tbls)
             s1 == [s EXCEPT !.nodes[n + 1].active = TRUE,
                             !.nodes[n + 1].tbls = Append(@, [tgt |-> IF nd.rel = -1 THEN LZero ELSE tgt, active |-> TRUE,
                                                               rows |-> <<>>, cap |-> cap])]
         IN [s |-> CacheAdd(s1, n, t), t |-> t]

TableFor(s, n, tgt) ==
    LET t == FindTable(s, n, tgt) IN
    IF t # -1 THEN [s |-> s, t |-> t] ELSE CreateTable(s, n, tgt, CapInc(s, Node(s, n).rel))

(* archetype.Alloc / AllocN: capacity grows in multiples of the node's increment *)
GrowCap(s, n, t, by) ==
    LET tb == Tbl(s, n, t)
        req == Len(tb.rows) + by
    IN IF tb.cap >= req THEN tb.cap ELSE CapFor(req, CapInc(s, Node(s, n).rel))

SetIdx(s, h, ref) == [s EXCEPT !.eidx[h[1] + 1] = ref]

(* append rows (entities with values) to a table and point the entity index at them *)
RECURSIVE AppendRows(_, _, _, _)
AppendRows(s, n, t, rs) ==
    IF rs = <<>> THEN s
    ELSE LET tb == Tbl(s, n, t)
             r == Head(rs)
             s1 == SetTbl(s, n, t, [tb EXCEPT !.rows = Append(@, r)])
         IN AppendRows(SetIdx(s1, r.e, <<n, t, Len(tb.rows)>>), n, t, Tail(rs))

Alloc(s, n, t, rs) ==
    LET c == GrowCap(s, n, t, Len(rs)) IN
    AppendRows([s EXCEPT !.nodes[n + 1].tbls[t + 1].cap = c], n, t, rs)

(* archetype.Remove: swap-remove a row and fix the index of the entity that moved into the hole *)
RemoveRow(s, n, t, row) ==
    LET tb == Tbl(s, n, t)
        last == Len(tb.rows) - 1
        rows2 == IF row = last THEN SubSeq(tb.rows, 1, last)
                 ELSE [i \in 1..last |-> IF i = row + 1 THEN tb.rows[last + 1] ELSE tb.rows[i]]
        s1 == SetTbl(s, n, t, [tb EXCEPT !.rows = rows2])
    IN IF row = last THEN s1 ELSE SetIdx(s1, tb.rows[last + 1].e, <<n, t, row>>)

(* node.RemoveArchetype + Cache.removeArchetype *)
Retire(s, n, t) ==
    LET s1 == [s EXCEPT !.nodes[n + 1].free = Append(@, t),
                        !.nodes[n + 1].tbls[t + 1].active = FALSE,
                        !.nodes[n + 1].tbls[t + 1].rows = <<>>]
    IN CacheRemove(s1, n, t)

(* World.cleanupArchetype *)
Cleanup(s, n, t) ==
    LET tb == Tbl(s, n, t) IN
    IF Len(tb.rows) > 0 \/ Node(s, n).rel = -1 \/ ~tb.active THEN s
    ELSE IF tb.tgt = LZero \/ LAlive(s, tb.tgt) THEN s
    ELSE Retire(s, n, t)

(* World.cleanupArchetypes(target): every node in creation order *)
RECURSIVE CleanupTargetFrom(_, _, _)
CleanupTargetFrom(s, tgt, n) ==
    IF n >= Len(s.nodes) THEN s
    ELSE LET t == IF Node(s, n).rel = -1 THEN -1 ELSE FindTable(s, n, tgt)
             s1 == IF t # -1 /\ Len(Tbl(s, n, t).rows) = 0 THEN Retire(s, n, t) ELSE s
         IN CleanupTargetFrom(s1, tgt, n + 1)
CleanupTarget(s, tgt) == CleanupTargetFrom(s, tgt, 0)

Flag(s, tgt) == IF tgt = LZero THEN s ELSE [s EXCEPT !.tflag = @ \cup {tgt[1]}]

---------------------------------------------------------------------------
(* The archetype graph walk (World.findOrCreateArchetype).                  *)
(* Returns [s, n, ok]; ok = FALSE is a panic inside the add loop, with the  *)
(* nodes created so far kept.                                               *)

RECURSIVE WalkRem(_, _, _)
WalkRem(s, m, rem) ==
    IF rem = <<>> THEN [s |-> s, m |-> m]
    ELSE LET m2 == m \ {Head(rem)}
             r == EnsureNode(s, m2, RelOfMask(s, m2))
         IN WalkRem(r.s, m2, Tail(rem))

RECURSIVE WalkAdd(_, _, _, _)
WalkAdd(s, m, add, start) ==
    IF add = <<>> THEN [s |-> s, m |-> m, ok |-> TRUE]
    ELSE LET c == Head(add) IN
         IF c \in m \/ c \in start THEN [s |-> s, m |-> m, ok |-> FALSE]
         ELSE IF c \in s.cfg.rels /\ m \cap s.cfg.rels # {} THEN [s |-> s, m |-> m, ok |-> FALSE]
         ELSE LET m2 == m \cup {c}
                  r == EnsureNode(s, m2, RelOfMask(s, m2))
              IN WalkAdd(r.s, m2, Tail(add), start)

Walk(s, startMask, add, rem) ==
    LET a == WalkRem(s, startMask, rem)
        b == WalkAdd(a.s, a.m, add, startMask)
    IN [s |-> b.s, n |-> NodeIndex(b.s, b.m), ok |-> b.ok]

---------------------------------------------------------------------------
(* Entities *)

(* World.createEntity: pool.Get, row, index (append for a fresh id, overwrite + clear flag for a recycled one) *)
EnsureIdx(s, h) ==
    IF h[1] + 1 > Len(s.eidx) THEN [s EXCEPT !.eidx = Append(@, NoRef)]
    ELSE [s EXCEPT !.tflag = @ \ {h[1]}]

CreateIn(s, n, t, vals) ==
    LET g == PGet(s.pool)
        s1 == EnsureIdx([s EXCEPT !.pool = g.p], g.h)
    IN [s |-> Alloc(s1, n, t, << [e |-> g.h, v |-> vals] >>), h |-> g.h]

(* World.createEntities: count entities, recycled ids first *)
RECURSIVE CreateManyIn(_, _, _, _, _)
CreateManyIn(s, n, t, vals, k) ==
    IF k = 0 THEN [s |-> s, hs |-> <<>>]
    ELSE LET g == PGet(s.pool)
             s1 == EnsureIdx([s EXCEPT !.pool = g.p], g.h)
             s2 == AppendRows(s1, n, t, << [e |-> g.h, v |-> vals] >>)
             rest == CreateManyIn(s2, n, t, vals, k - 1)
         IN [s |-> rest.s, hs |-> <<g.h>> \o rest.hs]

CreateMany(s, n, t, vals, k) ==
    (* the index is sized up front and every new id gets its flag cleared *)
    LET c == GrowCap(s, n, t, k)
        r == CreateManyIn([s EXCEPT !.nodes[n + 1].tbls[t + 1].cap = c], n, t, vals, k)
    IN [s |-> [r.s EXCEPT !.tflag = @ \ { r.hs[i][1] : i \in DOMAIN r.hs }], hs |-> r.hs]

ValsFor(s, m, given) == [c \in m \cap s.cfg.sized |-> IF c \in DOMAIN given THEN given[c] ELSE 0]

(* NewEntity / NewEntityWith / Builder.New(target) / NewBatch.                *)
(* ids: component list; given: values; hasTgt/rel/tgt as in layer 1; n >= 1.  *)
(* The checks happen in the code's order; see ArcheAbs!CreateWhy.             *)
LCreate(s, ids, given, hasTgt, rel, tgt, k, batch) ==
    IF hasTgt /\ ~(tgt = LZero \/ LAlive(s, tgt)) THEN [s |-> s, ok |-> FALSE, hs |-> <<>>]
    ELSE
    LET w == IF ids = <<>> THEN [s |-> s, n |-> 0, ok |-> TRUE] ELSE Walk(s, {}, ids, <<>>) IN
    IF ~w.ok THEN [s |-> w.s, ok |-> FALSE, hs |-> <<>>]
    ELSE LET tt == IF ids = <<>> THEN [s |-> w.s, t |-> 0] ELSE TableFor(w.s, w.n, IF hasTgt THEN tgt ELSE LZero)
             nd == Node(tt.s, w.n)
         IN IF hasTgt /\ ~(nd.rel # -1 /\ nd.rel = rel) THEN [s |-> tt.s, ok |-> FALSE, hs |-> <<>>]
            ELSE LET vals == ValsFor(tt.s, nd.mask, given) IN
                 IF batch
                 THEN LET s1 == IF hasTgt THEN Flag(tt.s, tgt) ELSE tt.s
                          r == CreateMany(s1, w.n, tt.t, vals, k)
                      IN [s |-> r.s, ok |-> TRUE, hs |-> r.hs]
                 ELSE LET r == CreateIn(tt.s, w.n, tt.t, vals)
                      IN [s |-> IF hasTgt THEN Flag(r.s, tgt) ELSE r.s, ok |-> TRUE, hs |-> <<r.h>>]

(* World.RemoveEntity *)
LRemove(s, h) ==
    LET ref == s.eidx[h[1] + 1]
        n == ref[1] t == ref[2]
        s1 == RemoveRow(s, n, t, ref[3])
        s2 == [s1 EXCEPT !.pool = PRecycle(s1.pool, h), !.eidx[h[1] + 1] = NoRef]
        s3 == IF h[1] \in s2.tflag THEN [CleanupTarget(s2, h) EXCEPT !.tflag = @ \ {h[1]}] ELSE s2
    IN Cleanup(s3, n, t)

(* The relation/target rule of exchangeNoNotify / exchangeArch *)
ExTargetL(s, tb, nd, relGiven, tgt, rem) ==
    IF relGiven THEN tgt
    ELSE IF tb.tgt # LZero /\ nd.mask \cap s.cfg.rels # {} /\ LRange(rem) \cap s.cfg.rels # {} THEN LZero
    ELSE tb.tgt

(* World.exchangeNoNotify (legality of add/rem against the mask is decided by layer 1's getExchangeMask part;  *)
(* here: relation checks, walk, move).  given: values to assign afterwards.                                       *)
LExchange(s, h, add, rem, relGiven, rel, tgt, given) ==
    LET ref == s.eidx[h[1] + 1]
        n == ref[1] t == ref[2] row == ref[3]
        nd == Node(s, n)
        tb == Tbl(s, n, t)
        newMask == (nd.mask \ LRange(rem)) \cup LRange(add)
    IN IF relGiven /\ ~(rel \in newMask /\ rel \in s.cfg.rels /\ (tgt = LZero \/ LAlive(s, tgt)))
       THEN [s |-> s, ok |-> FALSE]
       ELSE LET target == ExTargetL(s, tb, nd, relGiven, tgt, rem)
                w == Walk(s, nd.mask, add, rem)
            IN IF ~w.ok THEN [s |-> w.s, ok |-> FALSE]
               ELSE LET tt == TableFor(w.s, w.n, target)
                        old == Tbl(tt.s, n, t).rows[row + 1]
                        v2 == [c \in newMask \cap s.cfg.sized |->
                                 IF c \in DOMAIN given THEN given[c] ELSE IF c \in DOMAIN old.v THEN old.v[c] ELSE 0]
                        s1 == Alloc(tt.s, w.n, tt.t, << [e |-> h, v |-> v2] >>)
                        newRef == s1.eidx[h[1] + 1]
                        s2 == SetIdx(RemoveRow(s1, n, t, row), h, newRef)
                    IN [s |-> Cleanup(Flag(s2, target), n, t), ok |-> TRUE]

(* World.setRelation *)
LSetRelation(s, h, tgt) ==
    LET ref == s.eidx[h[1] + 1]
        n == ref[1] t == ref[2] row == ref[3]
        tb == Tbl(s, n, t)
    IN IF tb.tgt = tgt THEN s
       ELSE LET tt == TableFor(s, n, tgt)
                old == Tbl(tt.s, n, t).rows[row + 1]
                s1 == Alloc(tt.s, n, tt.t, << old >>)
                newRef == s1.eidx[h[1] + 1]
                s2 == SetIdx(RemoveRow(s1, n, t, row), h, newRef)
            IN Cleanup(Flag(s2, tgt), n, t)

LSet(s, h, c, v) ==
    LET ref == s.eidx[h[1] + 1] IN
    IF c \in s.cfg.sized THEN [s EXCEPT !.nodes[ref[1] + 1].tbls[ref[2] + 1].rows[ref[3] + 1].v[c] = v] ELSE s

---------------------------------------------------------------------------
(* Table lists for filters (World.getArchetypes), in the code's order.      *)

RECURSIVE SeqConcat(_)
SeqConcat(ss) == IF ss = <<>> THEN <<>> ELSE Head(ss) \o SeqConcat(Tail(ss))

NodeTables(s, f, n) ==
    LET nd == Node(s, n) IN
    IF ~nd.active \/ ~LMatchesMask(f, nd.mask) THEN <<>>
    ELSE IF f.k = "rel" THEN (IF nd.rel # -1 /\ FindTable(s, n, f.tgt) # -1 THEN << <<n, FindTable(s, n, f.tgt)>> >> ELSE <<>>)
    ELSE SelectSeq([i \in 1..Len(nd.tbls) |-> <<n, i - 1>>], LAMBDA r : Tbl(s, r[1], r[2]).active)

CacheEntryIndex(s, fid) == CHOOSE i \in DOMAIN s.cache : s.cache[i].fid = fid

(* fid: the filter id of a registered filter, or -1 *)
TableList(s, f, fid) ==
    IF fid # -1 THEN s.cache[CacheEntryIndex(s, fid)].list
    ELSE SeqConcat([n \in 1..Len(s.nodes) |-> NodeTables(s, f, n - 1)])

(* Iteration order of a query (ecs/query.go): tables in the order of TableList, rows in row order;  *)
(* empty and retired tables contribute nothing.                                                       *)
TableEntities(s, ref) == LET rows == Tbl(s, ref[1], ref[2]).rows IN [i \in DOMAIN rows |-> rows[i].e]
LQueryOrder(s, f, fid) ==
    LET refs == TableList(s, f, fid) IN SeqConcat([i \in DOMAIN refs |-> TableEntities(s, refs[i])])

(* Cache.Register / Unregister *)
LRegister(s, f) ==
    [s EXCEPT !.cache = Append(@, [fid |-> s.fidNext, f |-> f, list |-> TableList(s, f, -1), hasIdx |-> FALSE, idx |-> {}]),
              !.fidNext = @ + 1]

LUnregister(s, fid) ==
    LET i == CacheEntryIndex(s, fid)
        last == Len(s.cache)
    IN [s EXCEPT !.cache = IF i = last THEN SubSeq(@, 1, last - 1)
                           ELSE [k \in 1..(last - 1) |-> IF k = i THEN @[last] ELSE @[k]]]

---------------------------------------------------------------------------
(* Batch operations: per source table with rows, lengths taken up front.    *)

(* World.exchangeArch for one table (n, t) with `len` rows *)
LExchangeTable(s, n, t, add, rem, relGiven, rel, tgt) ==
    LET nd == Node(s, n)
        tb == Tbl(s, n, t)
        newMask == (nd.mask \ LRange(rem)) \cup LRange(add)
        target == ExTargetL(s, tb, nd, relGiven, tgt, rem)
        w == Walk(s, nd.mask, add, rem)
    IN IF relGiven /\ ~(rel \in newMask /\ rel \in s.cfg.rels) THEN [s |-> s, ok |-> FALSE]
       ELSE IF ~w.ok THEN [s |-> w.s, ok |-> FALSE]
       ELSE LET tt == TableFor(w.s, w.n, target)
                rows == Tbl(tt.s, n, t).rows
                moved == [i \in DOMAIN rows |->
                            [e |-> rows[i].e,
                             v |-> [c \in newMask \cap s.cfg.sized |-> IF c \in DOMAIN rows[i].v THEN rows[i].v[c] ELSE 0]]]
                s1 == Alloc(tt.s, w.n, tt.t, moved)
                s2 == [s1 EXCEPT !.nodes[n + 1].tbls[t + 1].rows = <<>>]
            IN [s |-> Cleanup(Flag(s2, target), n, t), ok |-> TRUE]

RECURSIVE LBatchExchangeOver(_, _, _, _, _, _, _, _)
LBatchExchangeOver(s, refs, lens, add, rem, relGiven, rel, tgt) ==
    IF refs = <<>> THEN [s |-> s, ok |-> TRUE]
    ELSE IF Head(lens) = 0 THEN LBatchExchangeOver(s, Tail(refs), Tail(lens), add, rem, relGiven, rel, tgt)
    ELSE LET r == LExchangeTable(s, Head(refs)[1], Head(refs)[2], add, rem, relGiven, rel, tgt) IN
         IF ~r.ok THEN r ELSE LBatchExchangeOver(r.s, Tail(refs), Tail(lens), add, rem, relGiven, rel, tgt)

LBatchExchange(s, f, fid, add, rem, relGiven, rel, tgt) ==
    LET refs == TableList(s, f, fid)
        lens == [i \in DOMAIN refs |-> Len(Tbl(s, refs[i][1], refs[i][2]).rows)]
    IN LBatchExchangeOver(s, refs, lens, add, rem, relGiven, rel, tgt)

(* World.setRelationArch for one table *)
LSetRelationTable(s, n, t, tgt) ==
    LET tt == TableFor(s, n, tgt)
        rows == Tbl(tt.s, n, t).rows
        s1 == Alloc(tt.s, n, tt.t, rows)
        s2 == [s1 EXCEPT !.nodes[n + 1].tbls[t + 1].rows = <<>>]
    IN Cleanup(Flag(s2, tgt), n, t)

RECURSIVE LBatchSetRelationOver(_, _, _, _)
LBatchSetRelationOver(s, refs, lens, tgt) ==
    IF refs = <<>> THEN s
    ELSE LET n == Head(refs)[1] t == Head(refs)[2] IN
         IF Head(lens) = 0 \/ Tbl(s, n, t).tgt = tgt THEN LBatchSetRelationOver(s, Tail(refs), Tail(lens), tgt)
         ELSE LBatchSetRelationOver(LSetRelationTable(s, n, t, tgt), Tail(refs), Tail(lens), tgt)

LBatchSetRelation(s, f, fid, tgt) ==
    LET refs == TableList(s, f, fid)
        lens == [i \in DOMAIN refs |-> Len(Tbl(s, refs[i][1], refs[i][2]).rows)]
    IN LBatchSetRelationOver(s, refs, lens, tgt)

(* World.removeEntities: per table, per row in order: index nil, (flagged: cleanupTarget, clear), recycle;      *)
(* then empty the table and clean it up.                                                                        *)
RECURSIVE LRemoveRows(_, _)
LRemoveRows(s, rows) ==
    IF rows = <<>> THEN s
    ELSE LET h == Head(rows).e
             s1 == [s EXCEPT !.eidx[h[1] + 1] = NoRef]
             s2 == IF h[1] \in s1.tflag THEN [CleanupTarget(s1, h) EXCEPT !.tflag = @ \ {h[1]}] ELSE s1
         IN LRemoveRows([s2 EXCEPT !.pool = PRecycle(s2.pool, h)], Tail(rows))

RECURSIVE LBatchRemoveOver(_, _)
LBatchRemoveOver(s, refs) ==
    IF refs = <<>> THEN s
    ELSE LET n == Head(refs)[1] t == Head(refs)[2]
             rows == Tbl(s, n, t).rows
         IN IF rows = <<>> THEN LBatchRemoveOver(s, Tail(refs))
            ELSE LET s1 == LRemoveRows(s, rows)
                     s2 == [s1 EXCEPT !.nodes[n + 1].tbls[t + 1].rows = <<>>]
                 IN LBatchRemoveOver(Cleanup(s2, n, t), Tail(refs))

LBatchRemove(s, f, fid) == LBatchRemoveOver(s, TableList(s, f, fid))

---------------------------------------------------------------------------
(* World.Reset: nodes in creation order; relation tables with a target are retired, others emptied. *)

RECURSIVE ResetTables(_, _, _)
ResetTables(s, n, t) ==
    IF t >= Len(Node(s, n).tbls) THEN s
    ELSE LET tb == Tbl(s, n, t)
             s1 == IF ~tb.active THEN s
                   ELSE IF Node(s, n).rel # -1 /\ tb.tgt # LZero THEN Retire(s, n, t)
                   ELSE [s EXCEPT !.nodes[n + 1].tbls[t + 1].rows = <<>>]
         IN ResetTables(s1, n, t + 1)

RECURSIVE ResetNodes(_, _)
ResetNodes(s, n) ==
    IF n >= Len(s.nodes) THEN s
    ELSE ResetNodes(IF Node(s, n).active THEN ResetTables(s, n, 0) ELSE s, n + 1)

LReset(s) ==
    ResetNodes([s EXCEPT !.eidx = << NoRef >>, !.tflag = {}, !.pool = PoolInit], 0)

(* World.LoadEntities: the pool is replaced, alive ids are appended to the empty-mask table in dump order. *)
LLoad(s, d) ==
    LET p == [ents |-> d.ents, next |-> d.next, avail |-> d.avail]
        s1 == [s EXCEPT !.pool = p, !.eidx = [i \in 1..Len(d.ents) |-> NoRef], !.tflag = {}]
        rs == [i \in DOMAIN d.alive |-> [e |-> p.ents[d.alive[i] + 1], v |-> [c \in {} |-> 0]]]
        rs2 == [i \in DOMAIN rs |-> [e |-> <<d.alive[i], rs[i].e[2]>>, v |-> rs[i].v]]
    IN Alloc(s1, 0, 0, rs2)

---------------------------------------------------------------------------
(* Initial state: the empty-mask node with its table of capacity 1. *)
LInit(cfg) ==
    [ pool |-> PoolInit, eidx |-> << NoRef >>, tflag |-> {},
      nodes |-> << [mask |-> {}, rel |-> -1, active |-> TRUE,
                    tbls |-> << [tgt |-> LZero, active |-> TRUE, rows |-> <<>>, cap |-> 1] >>, free |-> <<>>] >>,
      cache |-> <<>>, fidNext |-> 0, cfg |-> cfg ]

---------------------------------------------------------------------------
(* Derived (layer-1) view *)

RowsOf(s) == UNION { UNION { LRange(s.nodes[n].tbls[t].rows) : t \in DOMAIN s.nodes[n].tbls } : n \in DOMAIN s.nodes }
LAliveSet(s) == PAliveSet(s.pool)
LComps(s, h) == Node(s, s.eidx[h[1] + 1][1]).mask
LTarget(s, h) == LET r == s.eidx[h[1] + 1] IN Tbl(s, r[1], r[2]).tgt
LVals(s, h) == LET r == s.eidx[h[1] + 1] IN Tbl(s, r[1], r[2]).rows[r[3] + 1].v

(* Structural invariants (the same predicates the hook checks on the real memory). *)
StructInv(s) ==
    /\ PWellFormed(s.pool)
    /\ Len(s.eidx) = Len(s.pool.ents)
    /\ \A h \in LAliveSet(s) :
          LET r == s.eidx[h[1] + 1] IN
          /\ r # NoRef /\ r[1] < Len(s.nodes) /\ r[2] < Len(Node(s, r[1]).tbls)
          /\ Tbl(s, r[1], r[2]).active
          /\ r[3] < Len(Tbl(s, r[1], r[2]).rows)
          /\ Tbl(s, r[1], r[2]).rows[r[3] + 1].e = h
    /\ \A id \in PFreeIds(s.pool) : s.eidx[id + 1] = NoRef
    /\ Cardinality(RowsOf(s)) = Cardinality(LAliveSet(s))
    /\ \A n \in DOMAIN s.nodes :
          LET nd == s.nodes[n] IN
          /\ \A t \in DOMAIN nd.tbls :
                LET tb == nd.tbls[t] IN
                /\ Len(tb.rows) <= tb.cap
                /\ (~tb.active => (tb.rows = <<>> /\ Cardinality({ i \in DOMAIN nd.free : nd.free[i] = t - 1 }) = 1))
                /\ (tb.active => \A i \in DOMAIN nd.free : nd.free[i] # t - 1)
                /\ \A i \in DOMAIN tb.rows : tb.rows[i].e \in LAliveSet(s) /\ DOMAIN tb.rows[i].v = nd.mask \cap s.cfg.sized
          /\ \A i \in DOMAIN nd.free : nd.free[i] >= 0 /\ nd.free[i] < Len(nd.tbls)
          /\ \A t1, t2 \in DOMAIN nd.tbls : (t1 # t2 /\ nd.tbls[t1].active /\ nd.tbls[t2].active) => nd.tbls[t1].tgt # nd.tbls[t2].tgt
          /\ (nd.rel = -1 => Len(nd.tbls) <= 1)
          /\ nd.rel = RelOfMask(s, nd.mask)
          /\ nd.active = (nd.tbls # <<>>)
          /\ \A t \in DOMAIN nd.tbls :      \* an alive target of a populated table is flagged
                (nd.tbls[t].active /\ nd.tbls[t].rows # <<>> /\ nd.tbls[t].tgt # LZero /\ LAlive(s, nd.tbls[t].tgt))
                    => nd.tbls[t].tgt[1] \in s.tflag
    /\ \A n1, n2 \in DOMAIN s.nodes : n1 # n2 => s.nodes[n1].mask # s.nodes[n2].mask

(* The stronger form - an alive target of ANY active table is flagged, so that the table is retired when the target   *)
(* dies - holds as long as every creation call names a relation component that is in its component list.  A call like *)
(* NewBuilder(w, B).WithRelation(A).New(t) with two relation components A, B is rejected only AFTER the table (B, t)   *)
(* has been created (newEntityTarget: findOrCreateArchetype, then checkRelation), and the flag is set after the check: *)
(* the empty table stays, unflagged, and is not retired with t.  Nothing observable depends on it (an empty table of a *)
(* dead target selects nothing), so this is modelled as it is and FlagInv is only claimed for one relation component. *)
FlagInv(s) ==
    \A n \in DOMAIN s.nodes : \A t \in DOMAIN s.nodes[n].tbls :
        LET tb == s.nodes[n].tbls[t] IN
        (tb.active /\ tb.tgt # LZero /\ LAlive(s, tb.tgt)) => tb.tgt[1] \in s.tflag

(* Cache: every entry lists exactly the active tables its filter selects (non-relation tables of relation  *)
(* filters excepted, known finding E17), each once; the index, when built, is exact.                        *)
CacheInv(s) ==
    \A i \in DOMAIN s.cache :
        LET e == s.cache[i]
            refs == UNION { { <<n - 1, t - 1>> : t \in DOMAIN s.nodes[n].tbls } : n \in DOMAIN s.nodes }
            should == { r \in refs :
                          /\ Tbl(s, r[1], r[2]).active
                          /\ LMatchesMask(e.f, Node(s, r[1]).mask)
                          /\ (e.f.k = "rel" => (Node(s, r[1]).rel # -1 /\ Tbl(s, r[1], r[2]).tgt = e.f.tgt)) }
            listed == LRange(e.list)
        IN /\ Cardinality(listed) = Len(e.list)
           /\ { r \in listed : ~(e.f.k = "rel" /\ Node(s, r[1]).rel = -1) } = should
           /\ e.hasIdx => /\ BuildIdx(s, e) \subseteq e.idx      \* every relation table is indexed
                          /\ \A x \in e.idx : x[3] + 1 \in DOMAIN e.list /\ e.list[x[3] + 1] = <<x[1], x[2]>>
=============================================================================
