---------------------------- MODULE EntityPool ----------------------------
(***************************************************************************)
(* The entity pool of arche exactly as implemented (ecs/pool.go): one slot *)
(* per entity id holding [link, gen]; slot 0 is the reserved zero entity   *)
(* (generation rendered as -1); dead slots form an implicit LIFO free list *)
(* threaded through the link field, starting at `next`, `avail` long.      *)
(* A pool is a record [ents, next, avail]; ents[i+1] is the slot of id i.  *)
(* This is also the content of ecs.EntityDump (DumpEntities/LoadEntities). *)
(***************************************************************************)
EXTENDS Integers, Sequences, FiniteSets

PoolInit == [ents |-> << <<0, -1>> >>, next |-> 0, avail |-> 0]

PSlot(p, id) == p.ents[id + 1]

(* Get: pop the free list, or append a new slot with generation 0. *)
PGet(p) ==
    IF p.avail = 0
    THEN [p |-> [p EXCEPT !.ents = Append(@, <<Len(p.ents), 0>>)], h |-> <<Len(p.ents), 0>>]
    ELSE LET cur == p.next
             s == PSlot(p, cur)
         IN [p |-> [ents |-> [p.ents EXCEPT ![cur + 1] = <<cur, s[2]>>], next |-> s[1], avail |-> p.avail - 1],
             h |-> <<cur, s[2]>>]

RECURSIVE PGetN(_, _)
PGetN(p, n) ==
    IF n <= 0 THEN [p |-> p, hs |-> <<>>]
    ELSE LET r == PGet(p) rest == PGetN(r.p, n - 1) IN [p |-> rest.p, hs |-> <<r.h>> \o rest.hs]

(* Recycle: bump the generation, push on the free list. *)
PRecycle(p, h) ==
    [ents |-> [p.ents EXCEPT ![h[1] + 1] = <<p.next, @[2] + 1>>], next |-> h[1], avail |-> p.avail + 1]

RECURSIVE PRecycleSeq(_, _)
PRecycleSeq(p, hs) == IF hs = <<>> THEN p ELSE PRecycleSeq(PRecycle(p, Head(hs)), Tail(hs))

PAlive(p, h) == h[1] >= 0 /\ h[1] < Len(p.ents) /\ PSlot(p, h[1])[2] = h[2]

(* The ids on the free list, in pop order; <<>> marks a broken chain. *)
RECURSIVE PChainFrom(_, _, _, _)
PChainFrom(p, cur, k, seen) ==
    IF k = 0 THEN <<>>
    ELSE IF cur < 1 \/ cur >= Len(p.ents) \/ cur \in seen THEN << -1 >>
    ELSE <<cur>> \o PChainFrom(p, PSlot(p, cur)[1], k - 1, seen \cup {cur})

PChain(p) == PChainFrom(p, p.next, p.avail, {})

PWellFormed(p) ==
    LET ch == PChain(p)
        free == { ch[i] : i \in DOMAIN ch }
    IN /\ Len(p.ents) >= 1 /\ p.ents[1] = <<0, -1>>
       /\ p.avail >= 0 /\ Len(ch) = p.avail
       /\ -1 \notin free /\ Cardinality(free) = p.avail
       /\ \A id \in 1 .. (Len(p.ents) - 1) : id \notin free => PSlot(p, id)[1] = id   \* alive slots store their id
       /\ \A id \in 1 .. (Len(p.ents) - 1) : PSlot(p, id)[2] >= 0

PFreeIds(p) == LET ch == PChain(p) IN { ch[i] : i \in DOMAIN ch }
PAliveSet(p) == { <<id, PSlot(p, id)[2]>> : id \in (1 .. (Len(p.ents) - 1)) \ PFreeIds(p) }

(* The pool after recycling the handles of the set M in SOME order. *)
PRecycledSome(p, q, M) ==
    LET ch == PChain(q)
        k == Cardinality(M)
    IN /\ q.avail = p.avail + k /\ Len(q.ents) = Len(p.ents) /\ Len(ch) = q.avail
       /\ { ch[i] : i \in 1..k } = { h[1] : h \in M }
       /\ \A h \in M : PSlot(q, h[1])[2] = h[2] + 1
       /\ (p.avail > 0 => ch[k + 1] = p.next)
       /\ \A id \in (1 .. (Len(p.ents) - 1)) \ { h[1] : h \in M } : PSlot(q, id) = PSlot(p, id)
=============================================================================
