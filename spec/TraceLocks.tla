---------------------------- MODULE TraceLocks ----------------------------
(***************************************************************************)
(* Validation of the lock traces of harness mode `locks` (property C09):   *)
(* every lock source, every structural entry point under lock and after    *)
(* release, every release path, nesting up to the bit limit over several   *)
(* rounds.  The ghost is the lock state of Locks.tla with a counter wide   *)
(* enough not to wrap (the intended behaviour).                            *)
(***************************************************************************)
EXTENDS Locks, Json, IOUtils, SequencesExt, TLC

Trace == ndJsonDeserialize(IOEnv.TRACE)
TB == Trace[1].totalBits
CM == 65536

VARIABLES l, s, open, viol, nchk, ndrift
vars == <<l, s, open, viol, nchk, ndrift>>


ShapeOK(x) ==
    /\ Range(x.locks.held) = s'.held
    /\ x.locks.len = s'.len /\ x.locks.avail = s'.avail
    /\ (s'.avail > 0 => x.locks.next = s'.next)
    /\ \A i \in 1..s'.len : x.locks.bits[i] = s'.bits[i] \/ (i - 1) \in s'.held

Bad(cs) == IF Len(viol) > 30 THEN <<>>
           ELSE SelectSeq([i \in 1..Len(cs) |-> IF cs[i][2] THEN <<0, "">> ELSE <<l, cs[i][1]>>], LAMBDA c : c[2] # "")

Init == l = 1 /\ s = LocksInit(256) /\ open = [q \in {} |-> 0] /\ viol = <<>> /\ nchk = 0 /\ ndrift = 0

Step(x) ==
    CASE x.op = "hdr" ->
            /\ s' = LocksInit(TB) /\ open' = [q \in {} |-> 0]
            /\ UNCHANGED <<viol, nchk>>
      [] x.op = "open" ->
            LET lockedFail == x.kind = "batchq" /\ IsLocked(s)
                r == Lock(s, TB, CM)
                expPanic == lockedFail \/ ~r.ok
                good == ~expPanic /\ ~x.res.panic
                cs == << <<"open-succeeds-below-limit-and-fails-at-limit", x.res.panic = expPanic>>,
                         <<"locked-iff-query-open", x.locked = IsLocked(IF good THEN r.s ELSE s)>> >>
            IN /\ s' = IF good THEN r.s ELSE s
               /\ open' = IF good THEN [q \in DOMAIN open \cup {x.qi} |-> IF q = x.qi THEN r.bit ELSE open[q]] ELSE open
               /\ viol' = viol \o Bad(cs)
               /\ nchk' = nchk + Len(cs)
      [] x.op = "close" /\ x.qi \notin DOMAIN open ->
            \* only after an earlier disagreement (an open the model expected to fail succeeded in the code)
            /\ UNCHANGED <<s, open>>
            /\ viol' = viol \o Bad(<< <<"model-and-code-agree-on-open-queries", FALSE>> >>)
            /\ nchk' = nchk + 1
      [] x.op = "close" /\ x.qi \in DOMAIN open ->
            LET r == Unlock(s, open[x.qi], CM)
                cs == << <<"release-exactly-once-never-fails", ~x.res.panic /\ r.ok>>,
                         <<"locked-iff-query-open", x.locked = IsLocked(r.s)>> >>
            IN /\ s' = r.s
               /\ open' = [q \in DOMAIN open \ {x.qi} |-> open[q]]
               /\ viol' = viol \o Bad(cs)
               /\ nchk' = nchk + Len(cs)
      [] x.op = "struct" ->
            LET cs == IF IsLocked(s)
                      THEN << <<"structural-call-panics-while-locked:" \o x.api, x.res.panic>>,
                              <<"structural-call-changes-nothing-while-locked:" \o x.api, x.unchanged>> >>
                      ELSE << <<"structural-call-succeeds-when-unlocked:" \o x.api, ~x.res.panic>> >>
                            \o (IF "reg" \in DOMAIN x
                                THEN \* Registry.tla: a rejected registration leaves no trace - the next type to receive that
                                     \* ID is a relation exactly if it embeds the marker, and is usable as such
                                     << <<"registration-after-rejected-one-is-clean", x.reg.isRel = x.reg.wantRel /\ x.reg.usable>> >>
                                ELSE <<>>)
            IN /\ UNCHANGED <<s, open>>
               /\ viol' = viol \o Bad(cs)
               /\ nchk' = nchk + Len(cs) + 1
      [] x.op = "listener" ->
            LET ok(p) == p.removal => (p.locked /\ p.panic /\ p.unchanged)
                cs == << <<"removal-notification-window-is-locked", Len(x.probes) > 0 /\ \A i \in DOMAIN x.probes : ok(x.probes[i])>>,
                         <<"locked-iff-query-open", x.locked = IsLocked(s)>> >>
            IN /\ UNCHANGED <<s, open>>
               /\ viol' = viol \o Bad(cs)
               /\ nchk' = nchk + Len(cs)

Next ==
    /\ l <= Len(Trace)
    /\ Step(Trace[l])
    /\ ndrift' = ndrift + (IF ShapeOK(Trace[l]) THEN 0 ELSE 1)
    /\ l' = l + 1

Spec == Init /\ [][Next]_vars

Report ==
    l = Len(Trace) + 1 =>
        PrintT(<<"RESULT", ToJson([lines |-> Len(Trace), checks |-> [C09 |-> nchk], drift |-> ndrift,
                                   violations |-> [i \in 1..Len(viol) |-> [line |-> viol[i][1], i |-> viol[i][1], op |-> "locks", prop |-> "C09", check |-> viol[i][2]]]])>>)

TraceAccepted == TLCGet("stats").diameter - 1 = Len(Trace)
=============================================================================
