----------------------------- MODULE GcBarrier -----------------------------
(***************************************************************************)
(* Why raw byte copies of pointer-carrying components are unsafe under a   *)
(* concurrent collector, and typed copies are safe (design-level part of   *)
(* C14).  A tri-colour mark phase runs concurrently with a mutator that    *)
(* MOVES a component (one pointer slot) from table A to table B: copy      *)
(* A[s] -> B[d], then zero A[s] - exactly what arche does when an entity   *)
(* changes archetype.  A typed copy executes Go's write barrier (shade the *)
(* overwritten and the written pointer); a raw copy does not.              *)
(* TLC enumerates every interleaving of marker and mutator steps.          *)
(***************************************************************************)
EXTENDS Integers, FiniteSets, TLC

CONSTANTS Payloads,    \* heap objects referenced only through component slots
          TypedCopy,   \* BOOLEAN: the copy executes the write barrier
          TypedZero    \* BOOLEAN: the zeroing executes the write barrier

Tables == {"A", "B"}
Nil == "nil"

VARIABLES slot,    \* slot[t] : the pointer stored in table t (one slot per table), or Nil
          colour,  \* colour of every object (tables and payloads)
          phase,   \* "mark" | "done"
          pc       \* mutator: "copy" -> "zero" -> "end"

vars == <<slot, colour, phase, pc>>
Objects == Tables \cup Payloads

Init ==
    /\ \E p \in Payloads : slot = [t \in Tables |-> IF t = "A" THEN p ELSE Nil]
    /\ colour = [o \in Objects |-> IF o \in Tables THEN "grey" ELSE "white"]   \* tables are reachable from the roots
    /\ phase = "mark"
    /\ pc = "copy"

Shade(c, o) == IF o # Nil /\ c[o] = "white" THEN [c EXCEPT ![o] = "grey"] ELSE c

(* Marker: scan one grey object (shade what it references), blacken it. *)
Scan ==
    /\ phase = "mark"
    /\ \E o \in Objects :
          /\ colour[o] = "grey"
          /\ colour' = [ (IF o \in Tables THEN Shade(colour, slot[o]) ELSE colour) EXCEPT ![o] = "black" ]
    /\ UNCHANGED <<slot, phase, pc>>

(* Mark termination: no grey object left. *)
Finish ==
    /\ phase = "mark" /\ \A o \in Objects : colour[o] # "grey"
    /\ phase' = "done"
    /\ UNCHANGED <<slot, colour, pc>>

(* Mutator step 1: B[d] := A[s] *)
Copy ==
    /\ pc = "copy"
    /\ slot' = [slot EXCEPT !["B"] = slot["A"]]
    /\ colour' = IF TypedCopy /\ phase = "mark" THEN Shade(Shade(colour, slot["B"]), slot["A"]) ELSE colour
    /\ pc' = "zero"
    /\ UNCHANGED phase

(* Mutator step 2: A[s] := nil *)
Zero ==
    /\ pc = "zero"
    /\ slot' = [slot EXCEPT !["A"] = Nil]
    /\ colour' = IF TypedZero /\ phase = "mark" THEN Shade(colour, slot["A"]) ELSE colour
    /\ pc' = "end"
    /\ UNCHANGED phase

Next == Scan \/ Finish \/ Copy \/ Zero
Spec == Init /\ [][Next]_vars

Reachable == { slot[t] : t \in Tables } \ {Nil}

(* C14: when marking ends, everything a component references has been marked (would not be freed). *)
NoLostObject == phase = "done" => \A p \in Reachable : colour[p] = "black"
=============================================================================
