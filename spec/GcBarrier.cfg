SPECIFICATION Spec
CONSTANTS
  Payloads = {"p1", "p2"}
  TypedCopy = TRUE
  TypedZero = TRUE
INVARIANT NoLostObject
CHECK_DEADLOCK FALSE
