SPECIFICATION Spec
CONSTANTS
  MaxId = 6
  MaxGen = 3
  MaxBatch = 4
VIEW View
INVARIANTS WellFormed AliveIffIssuedNotRemoved AliveSetIsPoolAliveSet NoSharedId ZeroNeverAlive CountIsCreationsMinusRemovals
PROPERTIES FreshHandles RecycledFirst
CHECK_DEADLOCK FALSE
