SPECIFICATION Spec
CONSTANTS
  MaxId = 4
  MaxGen = 2
  MaxBatch = 3
VIEW View
INVARIANTS WellFormed AliveIffIssuedNotRemoved AliveSetIsPoolAliveSet NoSharedId ZeroNeverAlive CountIsCreationsMinusRemovals AbsIndInv
PROPERTIES StepsArePoolIndSteps FreshHandles RecycledFirst
CHECK_DEADLOCK FALSE
