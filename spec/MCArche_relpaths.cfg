SPECIFICATION Spec
CONSTANTS
  MaxId = 4
  MaxGen = 1
  Comps = {0, 1}
  Rels = {1}
  Sized = {0}
  MaxRegs = 0
  CapIncC = 1
  MaxSteps = 4
  Ops = {"Create", "Remove", "Exchange", "SetRel"}
  EmitEvery = 8
VIEW View
CONSTRAINT Bound
INVARIANTS EmitRelPath Struct Flags CacheOK Refines IssuedOnce PanicAgrees CacheSelects
CHECK_DEADLOCK FALSE
