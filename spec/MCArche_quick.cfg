SPECIFICATION Spec
CONSTANTS
  MaxId = 2
  MaxGen = 1
  Comps = {0, 1}
  Rels = {1}
  Sized = {0}
  MaxRegs = 1
  CapIncC = 1
VIEW View
CONSTRAINT Bound
INVARIANTS Struct CacheOK Refines IssuedOnce PanicAgrees CacheSelects
CHECK_DEADLOCK FALSE
