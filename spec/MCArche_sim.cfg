SPECIFICATION Spec
CONSTANTS
  MaxId = 4
  MaxGen = 2
  Comps = {0, 1, 2}
  Rels = {1}
  Sized = {0}
  MaxRegs = 2
  CapIncC = 1
  MaxSteps = 9
  Ops = {"Create", "Remove", "Exchange", "SetVal", "SetRel", "BatchExchange", "BatchSetRel", "BatchRemove", "Reset", "Register", "Unregister"}
  EmitEvery = 1
INVARIANTS EmitSome Struct Flags CacheOK Refines IssuedOnce PanicAgrees CacheSelects
CHECK_DEADLOCK FALSE
