--------------------------- MODULE TraceRegistry ---------------------------
(***************************************************************************)
(* Validation of registry traces (harness mode `registry`, property C16)   *)
(* against Registry.tla: dense ids in registration order, stable           *)
(* bijection, relation-by-shape, consistent reporting, every registered id *)
(* fully usable, one registration beyond the limit / in a locked world     *)
(* panics and leaves the registry unchanged.                               *)
(***************************************************************************)
EXTENDS Registry, Json, IOUtils, SequencesExt, TLC

Trace == ndJsonDeserialize(IOEnv.TRACE)
TB == Trace[1].totalBits

VARIABLES l, comps, ress, viol, nchk
vars == <<l, comps, ress, viol, nchk>>

SnapOK(sn, c, r) ==
    /\ sn.ids = [i \in 1..RegCount(c) |-> i - 1]
    /\ sn.rids = [i \in 1..RegCount(r) |-> i - 1]
    /\ Len(sn.infos) = RegCount(c)
    /\ \A i \in DOMAIN sn.infos :
          /\ sn.infos[i].ok /\ sn.infos[i].id = i - 1
          /\ sn.infos[i].rel = ((i - 1) \in c.rels)
          /\ sn.infos[i].type = c.types[i]
    /\ ~sn.beyond
    /\ sn.statsCount = RegCount(c)

Checks(x) ==
    CASE x.op = "register" ->
            LET r == Register(comps, x.type, x.isRel, TB, x.locked) IN
            << <<"registration-panics-exactly-beyond-limit-or-when-locked", x.res.panic = ~r.ok>>,
               <<"dense-stable-id", x.res.panic \/ x.res.ret = r.id>>,
               <<"registry-reported-consistently", SnapOK(x.snap, IF x.res.panic THEN comps ELSE r.r, ress)>> >>
      [] x.op = "registerRes" ->
            LET r == Register(ress, x.type, FALSE, TB, FALSE) IN
            << <<"resource-registration-panics-exactly-beyond-limit", x.res.panic = ~r.ok>>,
               <<"resource-dense-stable-id", x.res.panic \/ x.res.ret = r.id>>,
               <<"resource-ids-independent-of-component-ids", SnapOK(x.snap, comps, IF x.res.panic THEN ress ELSE r.r)>> >>
      [] x.op = "use" ->
            << <<"registered-id-usable", x.a < RegCount(comps) /\ x.b < RegCount(comps) /\ x.created
                                          /\ Len(x.steps) = 12
                                          /\ \A i \in DOMAIN x.steps : ~x.steps[i].panic /\ x.steps[i].val = "true">> >>
      [] x.op = "reset" ->
            << <<"registrations-survive-world-reset", ~x.res.panic /\ SnapOK(x.snap, comps, ress)>> >>
      [] OTHER -> <<>>

Init == l = 1 /\ comps = RegInit /\ ress = RegInit /\ viol = <<>> /\ nchk = 0

Next ==
    /\ l <= Len(Trace)
    /\ LET x == Trace[l]
           cs == Checks(x)
           fs == SelectSeq(cs, LAMBDA c : ~c[2])
       IN /\ viol' = IF Len(viol) > 40 THEN viol
                     ELSE viol \o [i \in 1..Len(fs) |-> [line |-> l, i |-> l, op |-> x.op, prop |-> "C16", check |-> fs[i][1]]]
          /\ nchk' = nchk + Len(cs)
          /\ comps' = IF x.op = "hdr" THEN RegInit ELSE IF x.op = "register" /\ ~x.res.panic THEN Register(comps, x.type, x.isRel, TB, x.locked).r ELSE comps
          /\ ress' = IF x.op = "hdr" THEN RegInit ELSE IF x.op = "registerRes" /\ ~x.res.panic THEN Register(ress, x.type, FALSE, TB, FALSE).r ELSE ress
    /\ l' = l + 1

Spec == Init /\ [][Next]_vars

Report ==
    l = Len(Trace) + 1 =>
        PrintT(<<"RESULT", ToJson([lines |-> Len(Trace), checks |-> [C16 |-> nchk], violations |-> viol])>>)

TraceAccepted == TLCGet("stats").diameter - 1 = Len(Trace)
=============================================================================
