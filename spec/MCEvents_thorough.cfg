SPECIFICATION Spec
CONSTANTS
  Comps = {0, 1}
  Rels = {1}
  SMasks = {0, 1, 2, 3, 4, 5, 6, 7, 8, 9, 10, 11, 12, 13, 14, 15, 16, 17, 18, 19, 20, 21, 22, 23, 24, 25, 26, 27, 28, 29, 30, 31, 32, 33, 34, 35, 36, 37, 38, 39, 40, 41, 42, 43, 44, 45, 46, 47, 48, 49, 50, 51, 52, 53, 54, 55, 56, 57, 58, 59, 60, 61, 62, 63}
  BitShapes = {1, 5, 53, 2, 10, 58, 4, 8, 12, 20, 24, 28, 32, 36, 40, 44, 48, 52, 56, 60, 63, 16, 3}
INVARIANTS RuleIsCode DispatchSound
PROPERTY Monotone
CHECK_DEADLOCK FALSE
