SPECIFICATION Spec
CONSTANTS
  MaxId = 2
  MaxGen = 1
  Comps = {0, 1, 2}
  Rels = {1, 2}
  Sized = {0}
  MaxRegs = 1
  CapIncC = 2
  MaxSteps = 3
  Ops = {"Create", "Remove", "Exchange", "SetVal", "SetRel", "BatchExchange", "BatchSetRel", "BatchRemove", "Reset", "Register", "Unregister"}
  EmitEvery = 1
VIEW View
CONSTRAINT Bound
INVARIANTS Struct CacheOK Refines IssuedOnce PanicAgrees CacheSelects
CHECK_DEADLOCK FALSE
