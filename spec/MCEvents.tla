----------------------------- MODULE MCEvents -----------------------------
(***************************************************************************)
(* Exhaustive check of the subscription rule (C12) over all subscription   *)
(* masks, all component restrictions and all event shapes of a small       *)
(* component universe:                                                     *)
(*  - the documented rule equals the code-shaped evaluation (trigger mask, *)
(*    nil checks) of ecs/util.go subscribes;                               *)
(*  - the rule is monotone in the subscription mask and in the component   *)
(*    restriction, which is what makes the union gate of listener.Dispatch *)
(*    sound: a sub-listener inside a Dispatch receives exactly what it     *)
(*    would receive alone.                                                 *)
(***************************************************************************)
EXTENDS ArcheAbs

CONSTANTS Comps, Rels, SMasks, BitShapes

VARIABLES lst, ev
vars == <<lst, ev>>

Masks == SUBSET Comps
RelVals == {-1} \cup Rels
Listeners == { [on |-> TRUE, S |-> s, C |-> c, hasC |-> h] : s \in SMasks, c \in Masks, h \in BOOLEAN }
NormL(x) == IF x.hasC THEN x ELSE [x EXCEPT !.C = {}]
(* the type-bit combinations the world can emit, plus a few it cannot *)
Others == { [on |-> TRUE, S |-> s, C |-> {}, hasC |-> FALSE] : s \in {0, 5, 63} }
          \cup { [on |-> TRUE, S |-> s, C |-> c, hasC |-> TRUE] : s \in {3, 48, 63}, c \in Masks }
Shapes == { [e |-> Zero, added |-> a, removed |-> r, addedIDs |-> a, removedIDs |-> r, oldRel |-> o, newRel |-> n,
             oldTgt |-> Zero, bits |-> b] : a \in Masks, r \in Masks, o \in RelVals, n \in RelVals, b \in BitShapes }

Init == /\ lst \in { x \in Listeners : x = NormL(x) }
        /\ ev \in Shapes

(* grow the listener by one event type, one component, or drop the restriction *)
Next ==
    /\ ev' = ev
    /\ \/ \E b \in {1, 2, 4, 8, 16, 32} : ~HasBit(lst.S, b) /\ lst' = [lst EXCEPT !.S = @ + b]
       \/ \E c \in Comps : lst.hasC /\ c \notin lst.C /\ lst' = [lst EXCEPT !.C = @ \cup {c}]
       \/ lst.hasC /\ lst' = [lst EXCEPT !.hasC = FALSE, !.C = {}]

Spec == Init /\ [][Next]_vars

(* ecs/util.go subscribes(), transcribed with its trigger mask and nil pointers *)
CodeSubscribes(l, e) ==
    LET trigger == BitsOf(l.S) \cap BitsOf(e.bits) IN
    IF trigger = {} THEN FALSE
    ELSE IF ~l.hasC THEN TRUE
    ELSE IF trigger \cap {16, 32} # {} /\ ((e.oldRel # -1 /\ e.oldRel \in l.C) \/ (e.newRel # -1 /\ e.newRel \in l.C)) THEN TRUE
    ELSE IF trigger \cap {1, 4} # {} /\ l.C \cap e.added # {} THEN TRUE
    ELSE IF trigger \cap {2, 8} # {} /\ l.C \cap e.removed # {} THEN TRUE
    ELSE FALSE

RuleIsCode == Subscribes(lst, ev) = CodeSubscribes(lst, ev)

Monotone == [][Subscribes(lst, ev) => Subscribes(lst', ev)]_vars

(* Dispatch of two sub-listeners: each receives exactly what it would receive alone. *)
DispatchSound ==
    \A other \in Others :
        LET subs == <<lst, other>> IN
        /\ DispatchDelivers(subs, 1, ev) = Subscribes(lst, ev)
        /\ DispatchDelivers(subs, 2, ev) = Subscribes(other, ev)
=============================================================================
