------------------------------ MODULE Registry ------------------------------
(***************************************************************************)
(* The component/resource type registry (ecs/registry.go) and the layout   *)
(* bookkeeping of tables (ecs/archetype.go, world_internal.go):            *)
(* ids are dense in registration order; a type is a relation iff           *)
(* ecs.Relation is embedded as its first field; every table has one layout *)
(* slot per possible id, allocated in chunks of Chunk and extended when a  *)
(* registration crosses a chunk boundary.  Width is the range of the       *)
(* integer type that carries slot counts (modelled literally).             *)
(***************************************************************************)
EXTENDS Integers, Sequences, FiniteSets

RegInit == [types |-> <<>>, rels |-> {}]

RegCount(r) == Len(r.types)
RegKnown(r, t) == \E i \in DOMAIN r.types : r.types[i] = t
RegIdOf(r, t) == (CHOOSE i \in DOMAIN r.types : r.types[i] = t) - 1

(* Register type t (isRel: ecs.Relation embedded first).  ok = FALSE: panic, registry unchanged. *)
Register(r, t, isRel, totalBits, locked) ==
    IF RegKnown(r, t) THEN [ok |-> TRUE, r |-> r, id |-> RegIdOf(r, t), new |-> FALSE]
    ELSE IF Len(r.types) >= totalBits \/ locked THEN [ok |-> FALSE, r |-> r, id |-> -1, new |-> FALSE]
    ELSE [ok |-> TRUE, id |-> Len(r.types), new |-> TRUE,
          r |-> [types |-> Append(r.types, t), rels |-> IF isRel THEN r.rels \cup {Len(r.types)} ELSE r.rels]]

(* Layout slots *)
CeilChunk(n, chunk) == IF n = 0 THEN chunk ELSE chunk * ((n + chunk - 1) \div chunk)
NewTableSlots(count, chunk, width) == CeilChunk(count, chunk) % width
ExtendTo(id, chunk, width) == (id + chunk) % width
NeedsExtend(id, chunk) == id > 0 /\ id % chunk = 0
=============================================================================
