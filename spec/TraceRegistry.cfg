SPECIFICATION Spec
INVARIANT Report
POSTCONDITION TraceAccepted
CHECK_DEADLOCK FALSE
