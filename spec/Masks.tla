------------------------------- MODULE Masks -------------------------------
(***************************************************************************)
(* A component mask is a set of component ids out of 0..TotalBits-1.       *)
(* This module states every Mask method as the corresponding set operation *)
(* (the executable semantics used to judge recorded calls on the real      *)
(* ecs.Mask, property C04), and the word view of the implementation, with  *)
(* the theorem-like invariants checked by TLC in MCMasks.                  *)
(***************************************************************************)
EXTENDS Integers, FiniteSets, Sequences

Ids(totalBits) == 0 .. (totalBits - 1)

MAll(ids) == { ids[i] : i \in DOMAIN ids }          \* All(ids...): duplicates do not matter
MGet(m, i) == i \in m
MSet(m, i, v) == IF v THEN m \cup {i} ELSE m \ {i}
MNot(m, totalBits) == Ids(totalBits) \ m
MIsZero(m) == m = {}
MReset(m) == {}
MContains(m, o) == o \subseteq m
MContainsAny(m, o) == m \cap o # {}
MAnd(m, o) == m \cap o
MOr(m, o) == m \cup o
MXor(m, o) == (m \ o) \cup (o \ m)
MTotalBitsSet(m) == Cardinality(m)

(* Word view: the implementation stores bit i in word i \div B at offset i % B    *)
(* (B = 64; 4 words in the default build, 1 in the `tiny` build) and computes     *)
(* every operation word by word.                                                  *)
Word(i, B) == i \div B
Offset(i, B) == i % B
WordOf(m, k, B) == { Offset(i, B) : i \in { j \in m : Word(j, B) = k } }
FromWords(ws, W, B) == { i \in 0 .. (W * B - 1) : Offset(i, B) \in ws[Word(i, B) + 1] }

WAnd(a, b, W, B) == FromWords([k \in 1..W |-> WordOf(a, k - 1, B) \cap WordOf(b, k - 1, B)], W, B)
WOr(a, b, W, B) == FromWords([k \in 1..W |-> WordOf(a, k - 1, B) \cup WordOf(b, k - 1, B)], W, B)
WXor(a, b, W, B) ==
    FromWords([k \in 1..W |-> (WordOf(a, k - 1, B) \ WordOf(b, k - 1, B)) \cup (WordOf(b, k - 1, B) \ WordOf(a, k - 1, B))], W, B)
WNot(a, W, B) == FromWords([k \in 1..W |-> (0 .. (B - 1)) \ WordOf(a, k - 1, B)], W, B)
WContains(a, b, W, B) == \A k \in 1..W : WordOf(a, k - 1, B) \cap WordOf(b, k - 1, B) = WordOf(b, k - 1, B)
WContainsAny(a, b, W, B) == \E k \in 1..W : WordOf(a, k - 1, B) \cap WordOf(b, k - 1, B) # {}
WIsZero(a, W, B) == \A k \in 1..W : WordOf(a, k - 1, B) = {}

=============================================================================
