SPECIFICATION Spec
CONSTANTS
  W = 3
  B = 2
INVARIANTS WordViewAgrees SetLaws FilterLaws
CHECK_DEADLOCK FALSE
