SPECIFICATION Spec
CONSTANTS
  MaxH = 2
  Comps = {0, 1, 2}
  Rels = {1, 2}
  Sized = {0, 1}
  MaxSeq = 1
  MaxOpen = 2
  MaxRegs = 1
  Vals = {1}
  MaxEmit = 2
VIEW View
CONSTRAINT StepBound
INVARIANTS EmitFaultPath WellFormed OneRelation TargetNeedsRelation TargetWasIssued RelFilterSelects CachedSelectsSame
PROPERTY AP
CHECK_DEADLOCK FALSE
