SPECIFICATION Spec
CONSTANTS
  TotalBits = 4
  CounterMod = 65536
  MaxRounds = 40
VIEW View
INVARIANTS LockedIffOpen OneBitPerQuery
PROPERTIES UpToTotalBits FullRejects ReleaseWorks
CHECK_DEADLOCK FALSE
