----------------------------- MODULE MCRegistry -----------------------------
(* All interleavings of registrations and table creations with the real constants. *)
EXTENDS Registry, TLC

CONSTANTS TotalBits, Chunk, Width

VARIABLES n, tables, lastOK
vars == <<n, tables, lastOK>>

Init == n = 0 /\ tables = {} /\ lastOK = TRUE

RegisterNew ==
    /\ lastOK' = (n < TotalBits)
    /\ IF n >= TotalBits THEN UNCHANGED <<n, tables>>
       ELSE /\ n' = n + 1
            /\ tables' = IF NeedsExtend(n, Chunk)
                         THEN { IF t >= ExtendTo(n, Chunk, Width) THEN t ELSE ExtendTo(n, Chunk, Width) : t \in tables }
                         ELSE tables

CreateTable ==
    /\ tables' = tables \cup { NewTableSlots(n, Chunk, Width) }
    /\ UNCHANGED <<n, lastOK>>

Next == RegisterNew \/ CreateTable
Spec == Init /\ [][Next]_vars

(* C16: every table has a layout slot for every registered id, whenever the type was registered. *)
LayoutCoversIds == \A t \in tables : t >= n /\ t >= 1
DenseUpToLimit == n <= TotalBits
OverLimitRejected == [][(n = TotalBits) => (~lastOK' \/ n' = n)]_vars
=============================================================================
