------------------------------ MODULE PoolInd ------------------------------
(***************************************************************************)
(* The entity pool (ecs/pool.go) with UNBOUNDED recycling depth: the       *)
(* argument behind C02 "never alive again, even after its ID has been      *)
(* recycled any number of times" as an inductive invariant.                *)
(*                                                                         *)
(* TLC (MCPool) explores the pool exhaustively up to a generation bound;   *)
(* here generations are arbitrary integers and the invariant is shown      *)
(* inductive by Apalache for N slots:                                      *)
(*   apalache-mc check --init=IndInit --inv=IndInv --length=0              *)
(*   apalache-mc check --init=IndInit --next=Next --inv=IndInv --length=1  *)
(*   apalache-mc check --init=Init    --inv=IndInv --length=0              *)
(* and IndInv => SafetyA, IndInv /\ Next => GenMonoA the same way.         *)
(*                                                                         *)
(* Binding: MCPool.tla instantiates this module over the implementation-   *)
(* shaped pool record of EntityPool.tla (the one the Go traces are checked *)
(* against) and TLC checks that every reachable record satisfies IndInv    *)
(* and that every Get / Recycle of EntityPool is a Get / Recycle here.     *)
(*                                                                         *)
(* State = the arrays of pool.go (link = Entity.id field of a slot, gen =  *)
(* Entity.gen), plus three ghosts: pos (depth of a slot in the free list), *)
(* maxIss / maxRem (highest generation ever issued / removed per id).      *)
(***************************************************************************)
EXTENDS Integers, FiniteSets

CONSTANT
    \* @type: Int;
    N

VARIABLES
    \* @type: Int;
    n,
    \* @type: Int -> Int;
    link,
    \* @type: Int -> Int;
    gen,
    \* @type: Int;
    next,
    \* @type: Int;
    avail,
    \* @type: Int -> Int;
    pos,
    \* @type: Int -> Int;
    maxIss,
    \* @type: Int -> Int;
    maxRem

vars == <<n, link, gen, next, avail, pos, maxIss, maxRem>>

Ids == 1..N

CInit == N = 4

Init ==
    /\ n = 0 /\ next = 0 /\ avail = 0
    /\ link = [i \in Ids |-> 0]
    /\ gen = [i \in Ids |-> 0]
    /\ pos = [i \in Ids |-> 0]
    /\ maxIss = [i \in Ids |-> -1]
    /\ maxRem = [i \in Ids |-> -1]

(* World.Alive(e) / entityPool.Alive *)
Alive(i, g) == i \in 1..n /\ gen[i] = g

(* entityPool.Get: pop the free list, or append a slot (getNew) *)
Get ==
    IF avail = 0
    THEN /\ n < N
         /\ n' = n + 1
         /\ link' = [link EXCEPT ![n + 1] = n + 1]
         /\ maxIss' = [maxIss EXCEPT ![n + 1] = gen[n + 1]]
         /\ UNCHANGED <<gen, next, avail, pos, maxRem>>
    ELSE /\ next' = link[next]
         /\ link' = [link EXCEPT ![next] = next]
         /\ avail' = avail - 1
         /\ pos' = [pos EXCEPT ![next] = 0]
         /\ maxIss' = [maxIss EXCEPT ![next] = gen[next]]
         /\ UNCHANGED <<n, gen, maxRem>>

(* entityPool.Recycle of the alive handle (i, gen[i]) *)
Recycle(i) ==
    /\ i \in 1..n /\ pos[i] = 0
    /\ gen' = [gen EXCEPT ![i] = gen[i] + 1]
    /\ link' = [link EXCEPT ![i] = next]
    /\ next' = i
    /\ avail' = avail + 1
    /\ pos' = [pos EXCEPT ![i] = avail + 1]
    /\ maxRem' = [maxRem EXCEPT ![i] = gen[i]]
    /\ UNCHANGED <<n, maxIss>>

Next == Get \/ \E i \in Ids : Recycle(i)

---------------------------------------------------------------------------
TypeOK ==
    /\ n \in 0..N /\ avail \in 0..N /\ next \in 0..N
    /\ link \in [Ids -> 0..N]
    /\ pos \in [Ids -> 0..N]
    /\ gen \in [Ids -> Int]
    /\ maxIss \in [Ids -> Int]
    /\ maxRem \in [Ids -> Int]

FreeList ==
    /\ avail <= n
    /\ \A i \in Ids : pos[i] <= avail
    /\ \A i \in Ids : i > n => pos[i] = 0
    /\ \A i, j \in Ids : (pos[i] > 0 /\ pos[i] = pos[j]) => i = j        \* one slot per depth
    /\ \A k \in Ids : k <= avail => \E i \in Ids : pos[i] = k            \* every depth is taken
    /\ avail > 0 => (next \in 1..n /\ pos[next] = avail)                 \* head of the list
    /\ \A i \in Ids : pos[i] > 1 => (link[i] \in 1..n /\ pos[link[i]] = pos[i] - 1)   \* links go one down
    /\ \A i \in Ids : (i <= n /\ pos[i] = 0) => link[i] = i              \* alive slots store their id

Generations ==
    /\ \A i \in Ids : i > n => (gen[i] = 0 /\ maxIss[i] = -1 /\ maxRem[i] = -1)
    /\ \A i \in Ids : gen[i] >= 0
    /\ \A i \in Ids : (i <= n /\ pos[i] = 0) => (maxIss[i] = gen[i] /\ maxRem[i] = gen[i] - 1)
    /\ \A i \in Ids : (i <= n /\ pos[i] > 0) => (maxIss[i] = gen[i] - 1 /\ maxRem[i] = gen[i] - 1)

IndInv == TypeOK /\ FreeList /\ Generations

IndInit ==
    /\ n \in 0..N /\ avail \in 0..N /\ next \in 0..N
    /\ link \in [Ids -> 0..N]
    /\ pos \in [Ids -> 0..N]
    /\ gen \in [Ids -> Int]
    /\ maxIss \in [Ids -> Int]
    /\ maxRem \in [Ids -> Int]
    /\ FreeList /\ Generations

---------------------------------------------------------------------------
(* What a user relies on (C02), as consequences of IndInv in every state:  *)
SafetyA ==
    /\ \A i \in Ids : i <= n => maxRem[i] < gen[i]
    /\ (avail > 0 => gen[next] > maxIss[next])
    /\ (avail = 0 /\ n < N => maxIss[n + 1] = -1)
    /\ Cardinality({ i \in Ids : i <= n /\ pos[i] = 0 }) = n - avail

(* generations never decrease: a handle once dead stays dead (with SafetyA: never alive again) *)
GenMonoA == \A i \in Ids : gen'[i] >= gen[i] /\ maxRem'[i] >= maxRem[i]
GenMonotone == [][GenMonoA]_vars
=============================================================================
