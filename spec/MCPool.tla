------------------------------ MODULE MCPool ------------------------------
(***************************************************************************)
(* Exhaustive model checking of the entity pool: all interleavings of      *)
(* single and batch creations, removals and Reset up to MaxId slots and    *)
(* MaxGen recycling depth.  Design-level form of C02 (and of the pool part *)
(* of C13/C15/C17).                                                        *)
(***************************************************************************)
EXTENDS EntityPool, TLC

CONSTANTS MaxId, MaxGen, MaxBatch

VARIABLES p, issued, alive, created, removed, lastNew

vars == <<p, issued, alive, created, removed, lastNew>>

Init == p = PoolInit /\ issued = {} /\ alive = {} /\ created = 0 /\ removed = 0 /\ lastNew = {}

Room(n) == (Len(p.ents) - 1) + (IF n > p.avail THEN n - p.avail ELSE 0) <= MaxId

Get ==
    /\ Room(1)
    /\ LET r == PGet(p) IN
       /\ p' = r.p /\ issued' = issued \cup {r.h} /\ alive' = alive \cup {r.h}
       /\ created' = created + 1 /\ removed' = removed /\ lastNew' = {r.h}

GetN ==
    \E n \in 2..MaxBatch :
        /\ Room(n)
        /\ LET r == PGetN(p, n) hs == { r.hs[i] : i \in DOMAIN r.hs } IN
           /\ p' = r.p /\ issued' = issued \cup hs /\ alive' = alive \cup hs
           /\ created' = created + n /\ removed' = removed /\ lastNew' = hs
           /\ Cardinality(hs) = n

Recycle ==
    \E h \in alive :
        /\ h[2] < MaxGen
        /\ p' = PRecycle(p, h) /\ alive' = alive \ {h} /\ issued' = issued
        /\ created' = created /\ removed' = removed + 1 /\ lastNew' = {}

Reset ==
    /\ p' = PoolInit /\ issued' = {} /\ alive' = {} /\ created' = 0 /\ removed' = 0 /\ lastNew' = {}

Next == Get \/ GetN \/ Recycle \/ Reset

Spec == Init /\ [][Next]_vars

View == <<p, issued, alive>>

WellFormed == PWellFormed(p)
AliveIffIssuedNotRemoved == \A h \in issued : PAlive(p, h) <=> h \in alive
AliveSetIsPoolAliveSet == PAliveSet(p) = alive
NoSharedId == \A a, b \in alive : a[1] = b[1] => a = b
ZeroNeverAlive == ~PAlive(p, <<0, 0>>) /\ <<0, 0>> \notin alive
CountIsCreationsMinusRemovals == Cardinality(alive) = created - removed /\ Cardinality(alive) = Len(p.ents) - 1 - p.avail

---------------------------------------------------------------------------
(* Binding to PoolInd.tla (unbounded generations, inductive invariant discharged by Apalache): the arrays of the     *)
(* implementation-shaped record, the free-list depth read off the chain, and the ghosts derived from the history.   *)
MaxOf(S, d) == IF S = {} THEN d ELSE CHOOSE x \in S : \A y \in S : y <= x
Chain == PChain(p)
AbsN == Len(p.ents) - 1
AbsLink == [i \in 1..MaxId |-> IF i <= AbsN THEN PSlot(p, i)[1] ELSE 0]
AbsGen == [i \in 1..MaxId |-> IF i <= AbsN THEN PSlot(p, i)[2] ELSE 0]
AbsPos == [i \in 1..MaxId |-> IF \E k \in DOMAIN Chain : Chain[k] = i
                              THEN p.avail - (CHOOSE k \in DOMAIN Chain : Chain[k] = i) + 1 ELSE 0]
AbsMaxIss == [i \in 1..MaxId |-> MaxOf({ h[2] : h \in { x \in issued : x[1] = i } }, -1)]
AbsMaxRem == [i \in 1..MaxId |-> MaxOf({ h[2] : h \in { x \in issued \ alive : x[1] = i } }, -1)]
PI == INSTANCE PoolInd WITH N <- MaxId, n <- AbsN, link <- AbsLink, gen <- AbsGen, next <- p.next, avail <- p.avail,
                            pos <- AbsPos, maxIss <- AbsMaxIss, maxRem <- AbsMaxRem
AbsIndInv == PI!IndInv /\ PI!SafetyA
(* every single Get / Recycle of the implementation-shaped pool is the corresponding PoolInd step *)
StepsArePoolIndSteps == [][(Get => PI!Get) /\ (Recycle => \E i \in 1..MaxId : PI!Recycle(i))]_vars

(* A newly issued handle differs from every handle issued since creation / the last reset. *)
FreshHandles == [][lastNew' \cap issued = {}]_vars
(* Recycled ids are used first, in LIFO order. *)
RecycledFirst == [][\A h \in lastNew' : (h[2] > 0 => h[1] \in PFreeIds(p))]_vars
=============================================================================
