SPECIFICATION Spec
CONSTANTS
  Comps = {0, 1}
  Rels = {1}
  SMasks = {0, 1, 2, 4, 8, 16, 32, 3, 12, 48, 5, 10, 53, 58, 36, 63}
  BitShapes = {1, 5, 53, 2, 10, 58, 4, 8, 12, 20, 32, 36}
INVARIANTS RuleIsCode DispatchSound
PROPERTY Monotone
CHECK_DEADLOCK FALSE
