"""Library behind /verif/check."""
import argparse
import concurrent.futures
import hashlib
import json
import os
import re
import shutil
import subprocess
import sys
import tempfile
import time

VERIF = os.path.dirname(os.path.dirname(os.path.abspath(__file__)))
REPO = os.environ.get('VERIF_REPO', '/repo')  # the checks build from /repo's working tree; VERIF_REPO is for background sweeps on a snapshot
TLA_CP = '/opt/veriftools/tla/tla2tools.jar:/opt/veriftools/tla/CommunityModules-deps.jar'
NCPU = min(16, os.cpu_count() or 4)

GOENV = dict(os.environ, GOFLAGS='-mod=mod', GOPROXY='off', GOSUMDB='off', GOTOOLCHAIN='local', GOWORK='off')


class Infra(Exception):
    """Infrastructure failure: exit 2, never a verdict."""


class Ctx:
    def __init__(self, prop, tier, seed):
        self.prop = prop
        self.tier = tier
        self.seed = seed
        self.t0 = time.time()
        base = os.environ.get('VERIF_SCRATCH', tempfile.gettempdir())
        self.scratch = tempfile.mkdtemp(prefix='verif-%s-' % prop, dir=base)
        self.harness = {}
        self.notes = []
        self.quick = tier == 'quick'

    def cleanup(self):
        shutil.rmtree(self.scratch, ignore_errors=True)

    def path(self, *p):
        return os.path.join(self.scratch, *p)

    def log(self, msg):
        print('[%s %6.1fs] %s' % (self.prop, time.time() - self.t0, msg), flush=True)


def sh(cmd, **kw):
    return subprocess.run(cmd, stdout=subprocess.PIPE, stderr=subprocess.STDOUT, text=True, **kw)


def build_harness(ctx, tags='verif', race=False):
    """Build the harness against /repo's current working tree."""
    with _lock:
        return _build_harness(ctx, tags, race)


def _build_harness(ctx, tags, race=False):
    key = tags + ('+race' if race else '')
    if key in ctx.harness:
        return ctx.harness[key]
    src = ctx.path('harness-src')
    if not os.path.isdir(src):
        shutil.copytree(os.path.join(VERIF, 'harness'), src)
        shutil.copy(os.path.join(REPO, 'go.sum'), os.path.join(src, 'go.sum'))
        if REPO != '/repo':
            gm = os.path.join(src, 'go.mod')
            txt = open(gm).read().replace('=> /repo', '=> ' + REPO)
            open(gm, 'w').write(txt)
    out = ctx.path('harness-' + key.replace(',', '-').replace('+', '-'))
    r = sh(['go', 'build'] + (['-race'] if race else []) + ['-tags', tags, '-o', out, '.'], cwd=src, env=GOENV)
    if r.returncode != 0:
        raise Infra('harness build failed (tags %s):\n%s' % (tags, r.stdout[-3000:]))
    ctx.harness[key] = out
    return out


import threading
_lock = threading.Lock()


def spec_dir(ctx):
    d = ctx.path('spec')
    with _lock:
        if not os.path.isdir(d):
            shutil.copytree(os.path.join(VERIF, 'spec'), d)
    return d


_meta = [0]


def tlc(ctx, module, cfg, workers=1, timeout=600, env=None, extra=(), heap='3g'):
    """Run TLC; returns (returncode, output)."""
    d = spec_dir(ctx)
    _meta[0] += 1
    meta = ctx.path('meta-%d-%d' % (os.getpid(), _meta[0]))
    # java.io.tmpdir: TLC creates a scratch directory per run; keep it inside this check's scratch directory
    cmd = ['java', '-Xmx' + heap, '-Xss64m', '-XX:+UseParallelGC', '-Djava.io.tmpdir=' + ctx.scratch, '-cp', TLA_CP, 'tlc2.TLC',
           '-workers', str(workers), '-metadir', meta, '-config', cfg] + list(extra) + [module]
    e = dict(os.environ)
    if env:
        e.update(env)
    try:
        r = subprocess.run(cmd, cwd=d, env=e, stdout=subprocess.PIPE, stderr=subprocess.STDOUT, text=True,
                           timeout=timeout)
    except subprocess.TimeoutExpired as ex:
        raise Infra('TLC timeout on %s/%s after %ds' % (module, cfg, timeout))
    finally:
        shutil.rmtree(meta, ignore_errors=True)
    return r.returncode, r.stdout


def model_check(ctx, module, cfg, workers=NCPU, timeout=900, heap='12g', extra=()):
    """Exhaustive TLC run of a model; returns dict(states, distinct, depth)."""
    t = time.time()
    rc, out = tlc(ctx, module, cfg, workers=workers, timeout=timeout, heap=heap, extra=extra)
    m = re.search(r'(\d+) states generated, (\d+) distinct states found, (\d+) states left', out)
    d = re.search(r'depth of the complete state graph search is (\d+)', out)
    res = dict(module=module, cfg=cfg, wall_s=round(time.time() - t, 1),
               generated=int(m.group(1)) if m else 0, distinct=int(m.group(2)) if m else 0,
               depth=int(d.group(1)) if d else 0)
    if 'Model checking completed. No error has been found.' not in out:
        inv = re.search(r'Invariant (\S+) is violated', out) or re.search(r'Action property (\S+) is violated', out)
        res['error'] = inv.group(1) if inv else 'TLC failed'
        res['output'] = out[-4000:]
        raise Infra('MODEL-ERROR: %s/%s: %s\n%s' % (module, cfg, res['error'], out[-3000:]))
    ctx.log('model-checked %s/%s: %d distinct states, %d generated, depth %d, %.1fs' %
            (module, cfg, res['distinct'], res['generated'], res['depth'], res['wall_s']))
    return res


def gen_traces(ctx, profile, seed, n, tags='verif', label=None, overrides=None, env=None, crash_ok=False):
    """Run the online generator: n schedules from one seed. Returns (trace, sched)."""
    h = build_harness(ctx, tags)
    label = label or ('%s-%d' % (os.path.basename(profile).replace('.json', ''), seed))
    trace = ctx.path('trace-%s.ndjson' % label)
    sched = ctx.path('sched-%s.ndjson' % label)
    prof = profile
    if overrides:
        p = json.load(open(profile))
        p.update(overrides)
        prof = ctx.path('profile-%s.json' % label)
        json.dump(p, open(prof, 'w'))
    e = dict(os.environ)
    if env:
        e.update(env)
    r = sh([h, 'gen', '-profile', prof, '-seed', str(seed), '-n', str(n), '-out', trace, '-sched', sched], env=e,
           timeout=3600)
    if r.returncode != 0:
        if crash_ok:
            return dict(crash=r.stdout, profile=profile, seed=seed, n=n, env=env or {})
        info = salvage_crash(ctx, h, sched, r.stdout, label, e)
        if info is None:
            raise Infra('generator failed (%s seed %d):\n%s\n...\n%s' % (profile, seed, r.stdout[:1500], r.stdout[-1500:]))
        raise Crashed(info)
    return trace, sched


class Crashed(Infra):
    """The process died while executing a generated schedule; info describes the recovered schedule and its replay."""
    def __init__(self, info):
        Infra.__init__(self, 'the process died: ' + info['first'])
        self.info = info


def crash_site(text):
    """(first line of the fault, first non-runtime frame of the faulting goroutine) of a Go crash dump."""
    lines = text.splitlines()
    first = next((l for l in lines if l.startswith('fatal error:') or l.startswith('panic:') or 'SIGSEGV' in l
                  or l.startswith('unexpected fault address')), '')
    start = next((i for i, l in enumerate(lines) if l.startswith('goroutine ') and ('[running]' in l or 'running' in l)), None)
    frame = ''
    if start is not None:
        for l in lines[start + 1:]:
            if not l.strip():
                break
            if l.startswith('\t') or l.startswith(' '):
                continue
            fn = l.split('(')[0]
            if fn.startswith('runtime.') or fn.startswith('runtime/') or fn.startswith('panic') or fn.startswith('reflect.') \
                    or fn.startswith('internal/') or fn.startswith('sync') or fn.startswith('unsafe'):
                continue
            frame = fn
            break
    return first, frame


def library_fault(first, frame, text):
    """Is the (reproducible) death of the process the library's doing?  Yes if the first frame of the faulting goroutine
    outside the Go runtime lies in arche; also for the memory-corruption class of runtime faults, which come without a usable
    stack (the harness itself writes through no unsafe pointer and shares nothing between goroutines in these modes):
    bad pointers found by the collector, corrupted type words, faults at wild addresses.  Never for Go panics raised in
    harness code, deadlocks, exhausted memory or concurrent map access (possible harness defects: infrastructure)."""
    if frame.startswith('github.com/mlange-42/arche/'):
        return True
    if frame:
        return False
    corrupt = ('name offset', 'bad pointer', 'invalid pointer', 'unexpected fault address', 'SIGSEGV', 'SIGBUS',
               'found pointer to free object', 'marking free object', 'bad sweepgen', 'span has no free', 'misaligned')
    return first.startswith('fatal error') and any(k in first or k in text[:4000] for k in corrupt)


def salvage_crash(ctx, h, sched, out, label, env):
    """Recover the schedule that killed the generator from its journal and replay it with every trace line flushed.
    Returns None when the journal is unusable or the fault does not reproduce."""
    jp = sched + '.journal'
    if not os.path.exists(jp):
        return None
    header, ops = None, []
    for l in open(jp):
        try:
            d = json.loads(l)
        except ValueError:
            break
        if 'header' in d:
            header, ops = d['header'], []
        elif 'op' in d:
            ops.append(d['op'])
    if header is None:
        return None
    header['ops'] = ops
    cs = ctx.path('crash-sched-%s.ndjson' % label)
    ct = ctx.path('crash-trace-%s.ndjson' % label)
    with open(cs, 'w') as f:
        f.write(json.dumps(header) + '\n')
    e = dict(env)
    e['VERIF_FLUSH'] = '1'
    r = sh([h, 'run', '-in', cs, '-out', ct], env=e, timeout=900)
    if r.returncode == 0:
        return None
    # keep complete lines only
    good = []
    if os.path.exists(ct):
        for l in open(ct):
            try:
                json.loads(l)
                good.append(l if l.endswith('\n') else l + '\n')
            except ValueError:
                break
    with open(ct, 'w') as f:
        f.writelines(good)
    first, frame = crash_site(r.stdout)
    return dict(sched=cs, trace=ct, lines=len(good), nops=len(ops), last_op=ops[-1] if ops else None, first=first, frame=frame,
                library=library_fault(first, frame, r.stdout), text=r.stdout[:2500], schedule=header)


def run_schedules(ctx, sched, tags='verif', label=None):
    h = build_harness(ctx, tags)
    label = label or hashlib.md5(sched.encode()).hexdigest()[:8]
    trace = ctx.path('trace-run-%s.ndjson' % label)
    r = sh([h, 'run', '-in', sched, '-out', trace])
    if r.returncode != 0:
        info = salvage_run_crash(ctx, h, sched, trace, label)
        if info is None:
            raise Infra('runner failed on %s:\n%s\n...\n%s' % (sched, r.stdout[:1500], r.stdout[-1500:]))
        raise Crashed(info)
    return trace


def salvage_run_crash(ctx, h, sched, trace, label):
    """The runner died on one schedule of a file: replay that schedule alone with flushed trace lines."""
    pp = trace + '.progress'
    if not os.path.exists(pp):
        return None
    try:
        k = int(open(pp).read().strip())
        line = [l for l in open(sched) if l.strip()][k]
        header = json.loads(line)
    except (ValueError, IndexError):
        return None
    cs = ctx.path('crash-sched-%s.ndjson' % label)
    ct = ctx.path('crash-trace-%s.ndjson' % label)
    with open(cs, 'w') as f:
        f.write(json.dumps(header) + '\n')
    r = sh([h, 'run', '-in', cs, '-out', ct], env=dict(os.environ, VERIF_FLUSH='1'), timeout=900)
    if r.returncode == 0:
        return None
    good = []
    if os.path.exists(ct):
        for l in open(ct):
            try:
                json.loads(l)
                good.append(l if l.endswith('\n') else l + '\n')
            except ValueError:
                break
    with open(ct, 'w') as f:
        f.writelines(good)
    first, frame = crash_site(r.stdout)
    ops = header.get('ops', [])
    nops = max(0, len(good) - 1)
    return dict(sched=cs, trace=ct, lines=len(good), nops=nops, last_op=ops[nops] if nops < len(ops) else None, first=first,
                frame=frame, library=library_fault(first, frame, r.stdout), text=r.stdout[:2500], schedule=header)


def validate(ctx, trace, module='TraceAbs.tla', cfg='TraceAbs.cfg', timeout=900, strict=False):
    """TLC trace validation of one trace file. Returns the RESULT record."""
    nlines = sum(1 for _ in open(trace))
    rc, out = tlc(ctx, module, cfg, workers=1, timeout=timeout, env={'TRACE': trace, 'STRICT': '1' if strict else '0'})
    m = re.search(r'<<"RESULT", "(.*)">>', out)
    if not m or 'Model checking completed. No error has been found.' not in out:
        raise Infra('trace validation failed on %s (%s):\n%s' % (trace, cfg, out[-3000:]))
    res = json.loads(json.loads('"' + m.group(1) + '"'))
    if res['lines'] != nlines:
        raise Infra('trace %s: %d lines, TLC consumed %d' % (trace, nlines, res['lines']))
    res['trace'] = trace
    return res


def parallel(fn, items, workers=NCPU):
    with concurrent.futures.ThreadPoolExecutor(max_workers=workers) as ex:
        return list(ex.map(fn, items))


def load_known():
    p = os.path.join(VERIF, 'KNOWN_FINDINGS.json')
    if not os.path.exists(p):
        return []
    return json.load(open(p)).get('findings', [])


def read_lines(path):
    return [json.loads(l) for l in open(path)]


def schedule_of_line(trace_lines, lineno):
    """Index (0-based) of the schedule that contains 1-based trace line `lineno`."""
    k = -1
    for i, ln in enumerate(trace_lines[:lineno]):
        if ln['op'] == 'NewWorld':
            k += 1
    return k


def save_replay(ctx, sched_file, index, n, upto=None):
    d = os.path.join(VERIF, 'evidence', 'replays')
    os.makedirs(d, exist_ok=True)
    lines = [l for l in open(sched_file) if l.strip()]
    h = json.loads(lines[index])
    if upto is not None:
        h['ops'] = h['ops'][:upto]
    if '-tiny-' in os.path.basename(sched_file):
        h['buildTags'] = 'verif,tiny'   # executed by the 64-bit build; --replay builds the same
    p = os.path.join(d, '%s-%d-%d.json' % (ctx.prop, ctx.seed, n))
    json.dump(h, open(p, 'w'))
    return p


def write_evidence(ctx, level, coverage, assumptions, violations):
    d = os.path.join(VERIF, 'evidence')
    os.makedirs(d, exist_ok=True)
    ev = dict(property_id=ctx.prop, tier=ctx.tier, seed=ctx.seed, level=level, coverage=coverage,
              assumptions=assumptions, wall_s=round(time.time() - ctx.t0, 1), violations=violations)
    json.dump(ev, open(os.path.join(d, ctx.prop + '.json'), 'w'), indent=1)


def digest(obj):
    return hashlib.md5(json.dumps(obj, sort_keys=True).encode()).hexdigest()


def main(argv):
    ap = argparse.ArgumentParser()
    ap.add_argument('prop')
    ap.add_argument('--tier', default=os.environ.get('VERIF_TIER', 'quick'), choices=['quick', 'thorough'])
    ap.add_argument('--replay', default=None)
    ap.add_argument('--keep', action='store_true')
    a = ap.parse_args(argv)
    seed = int(os.environ.get('VERIF_SEED', '1'))
    import props
    if a.prop not in props.PROPS:
        print('unknown property', a.prop)
        return 2
    ctx = Ctx(a.prop, a.tier, seed)
    try:
        if a.replay:
            return props.replay(ctx, a.replay)
        return props.PROPS[a.prop](ctx)
    except Infra as e:
        print('INFRA-ERROR property=%s: %s' % (a.prop, e), flush=True)
        return 2
    finally:
        if not a.keep:
            ctx.cleanup()
        else:
            print('scratch kept at', ctx.scratch)
