"""Per-property check definitions."""
import glob
import json
import os

from vlib import *  # noqa

PROF = os.path.join(VERIF, 'profiles')
SCEN = os.path.join(VERIF, 'scenarios')

STRUCT_OPS = {'NewEntity', 'NewEntityWith', 'BuilderNew', 'NewBatch', 'RemoveEntity', 'Exchange', 'Assign',
              'SetRelation', 'BatchExchange', 'BatchSetRelation', 'BatchRemove', 'Reset'}


def _ok(ln):
    return not ln['res']['panic']


def _targets(prev):
    if not prev or 'obs' not in prev:
        return set()
    return {tuple(x['tgt']) for x in prev['obs']['ents'] if x['tgt'] != [0, 0]}


def rel_C01(ln, prev):
    return _ok(ln) and ln['op'] in STRUCT_OPS | {'Set'} and len(ln.get('obs', {}).get('ents', [])) >= 2


def rel_C02(ln, prev):
    return ln['op'] in {'NewEntity', 'NewEntityWith', 'BuilderNew', 'NewBatch', 'RemoveEntity', 'BatchRemove',
                        'Reset'} and _ok(ln)


def rel_C03(ln, prev):
    if ln['op'] == 'Panel' and _ok(ln):
        return ln['panel']['count'] >= 1
    return ln['op'] in {'QNext', 'QStep'} and _ok(ln) and ln['res']['ret'] == 1


def rel_C05(ln, prev):
    a = ln['args']
    return _ok(ln) and (a.get('tgt', [0, 0]) != [0, 0] or any(x['rel'] >= 0 for x in ln.get('obs', {}).get('ents', [])))


def rel_C06(ln, prev):
    if not _ok(ln):
        return False
    t = _targets(prev)
    if ln['op'] == 'RemoveEntity':
        return tuple(ln['args']['e']) in t
    if ln['op'] in {'BatchRemove', 'Reset'}:
        return len(t) > 0
    # reuse: creation / move towards a target while dead targets are around
    return ln['op'] in {'BuilderNew', 'NewBatch', 'SetRelation', 'BatchSetRelation', 'Exchange'} and \
        ln['args'].get('tgt', [0, 0]) != [0, 0]


def rel_C07(ln, prev):
    if any(len(s['orig']) > 0 for s in ln.get('sweep', [])):
        return True
    f = ln['args'].get('f')
    return bool(f) and f['k'] == 'cached'


def rel_C08(ln, prev):
    if ln['op'] not in {'NewBatch', 'BatchExchange', 'BatchSetRelation', 'BatchRemove'} or not _ok(ln):
        return False
    if 'panel' in ln:
        return ln['panel']['count'] >= 1
    if 'qinfo' in ln:
        return ln['qinfo']['count'] >= 1
    return ln['res']['ret'] >= 1 or ln['op'] == 'NewBatch'


def rel_C09(ln, prev):
    return ln.get('lockedBefore', False) or ln['op'] in {'OpenQuery', 'QNext', 'QStep', 'QClose'} or \
        any(e['locked'] for e in ln['events'])


def rel_C10(ln, prev):
    return ln['res']['panic']


def rel_C11(ln, prev):
    return len(ln['events']) > 0


def rel_C12(ln, prev):
    return ln['op'] in STRUCT_OPS | {'QClose', 'QNext', 'QStep'} and _ok(ln)


def rel_C15(ln, prev):
    if ln['op'] == 'TwinEq':
        if ln['api'] == 'reset':
            ln['args'] = dict(of=ln['of'], res=ln['a']['res'], ents=ln['a']['obs']['ents'])
            return True
        return False
    if ln['op'] == 'Reset' and _ok(ln) and prev and 'obs' in prev:
        ln['args'] = dict(before=prev['obs']['ents'], sweep=prev.get('sweep'))
        return True
    return False


def rel_C17(ln, prev):
    if ln['op'] == 'TwinEq':
        if ln['api'] == 'load':
            ln['args'] = dict(of=ln['of'], res=ln['a']['res'], pool=ln['a']['obs']['pool'])
            return True
        return False
    return ln['op'] in {'Dump', 'Load', 'Fork'}


def rel_C18(ln, prev):
    return str(ln.get('api', '')).startswith('generic.') and _ok(ln)


def rel_C20(ln, prev):
    return ln['op'] in {'ResAdd', 'ResRemove', 'ResGet'} or (len(ln.get('obs', {}).get('res', [])) > 0 and ln['op'] in STRUCT_OPS)


def world_check(ctx, relevant, profiles, mcs=(), scenarios=(), level='model_checking', assumptions=(), tags='verif',
                trace_cfg='TraceAbs.cfg', extra_cov=None, extra=None):
    """Generic check of the world family: model checking + trace validation of recorded executions."""
    build_harness(ctx, tags)
    mc = [model_check(ctx, m, c, **kw) for (m, c, kw) in mcs]
    jobs = []
    for (prof, nq, nt) in profiles:
        n = nq if ctx.quick else nt
        chunks = min(NCPU, max(1, n // 10))
        per = (n + chunks - 1) // chunks
        for k in range(chunks):
            jobs.append((os.path.join(PROF, prof + '.json'), ctx.seed * 100 + k, per, '%s-%d' % (prof, k)))
    gens = parallel(lambda j: gen_traces(ctx, j[0], j[1], j[2], tags=tags, label=j[3]), jobs)
    pairs = list(gens)
    for s in scenarios:
        pairs.append((run_schedules(ctx, s, tags=tags, label=os.path.basename(s)), s))
    ctx.log('recorded %d trace files' % len(pairs))
    results = parallel(lambda p: validate(ctx, p[0], cfg=trace_cfg, strict='E17' in os.path.basename(p[1])), pairs)
    xv = []
    if extra:
        extra_cov = dict(extra_cov or {})
        xv = extra(ctx, extra_cov)
    return finish(ctx, relevant, pairs, results, mc, level, assumptions, extra_cov, xv)


def finish(ctx, relevant, pairs, results, mc, level, assumptions, extra_cov=None, extra_viols=()):
    known = [k for k in load_known() if k.get('status') == 'open' and k.get('property') == ctx.prop]
    nsched = nlines = nchecks = 0
    distinct = set()
    samples = []
    viols = []
    kf = []
    ops = {}
    for (trace, sched), res in zip(pairs, results):
        lines = read_lines(trace)
        nlines += len(lines)
        nchecks += res['checks'].get(ctx.prop, 0) if isinstance(res['checks'], dict) else res['checks']
        prev = None
        name = ''
        for ln in lines:
            if ln['op'] == 'NewWorld':
                nsched += 1
                prev = None
                name = ln['args']['name']
            else:
                ln.setdefault('args', {})
                ln.setdefault('res', {'panic': False, 'ret': -1})
                ln.setdefault('events', [])
                if relevant(ln, prev):
                    distinct.add(digest([ln['op'], ln['api'], ln['args'], ln.get('obs', {}).get('ents')]))
                    ops[ln['op']] = ops.get(ln['op'], 0) + 1
                    if len(samples) < 3:
                        samples.append(dict(schedule=name, op=ln['op'], api=ln['api'], args=ln['args'], res=ln['res']))
            prev = ln
        for v in res['violations']:
            if v['prop'] != ctx.prop:
                continue
            k = schedule_of_line(lines, v['line'])
            sname = [l for l in lines if l['op'] == 'NewWorld'][k]['args']['name']
            match = [f for f in known if f['match'].get('scenario') == sname and v['check'] in f['match'].get('checks', [])]
            if match:
                kf.append((match[0], v))
            else:
                viols.append((trace, sched, k, v))
    for f, v in {f['id']: (f, v) for f, v in kf}.values():
        print('KNOWN-FINDING: property=%s %s [%s]' % (ctx.prop, f['what'], f['id']), flush=True)
    replays = []
    seen = set()
    for trace, sched, k, v in viols:
        if (sched, k) in seen or len(replays) >= 5:
            continue
        seen.add((sched, k))
        p = save_replay(ctx, sched, k, len(replays), upto=v['i'])
        replays.append(p)
        print('VIOLATION property=%s replay=%s' % (ctx.prop, p))
        print('  check=%s op=%s step=%d (trace line %d)' % (v['check'], v['op'], v['i'], v['line']), flush=True)
    for n, (desc, payload) in enumerate(extra_viols):
        d = os.path.join(VERIF, 'evidence', 'replays')
        os.makedirs(d, exist_ok=True)
        p = os.path.join(d, '%s-%d-x%d.json' % (ctx.prop, ctx.seed, n))
        json.dump(payload, open(p, 'w'))
        if n < 5:
            print('VIOLATION property=%s replay=%s' % (ctx.prop, p))
            print('  ' + desc, flush=True)
    viols = viols + [None] * len(extra_viols)
    cov = dict(
        states=sum(m['distinct'] for m in mc), transitions=sum(m['generated'] for m in mc),
        traces_validated_against_impl=nsched, evaluations=nchecks, distinct_nontrivial=len(distinct),
        rule='evaluations = checks of this property evaluated by TLC on recorded trace lines; a case is one '
             'trace line (operation, entry point, arguments, resulting entity table) for which the property\'s '
             'relevance predicate holds; distinct by digest',
        samples=samples, model_checking=mc, trace_lines=nlines, relevant_lines_by_op=ops,
        exhaustive=False, known_findings=[f['id'] for f, v in kf])
    if extra_cov:
        cov.update(extra_cov)
    if not viols and (nsched == 0 or len(distinct) < 2):
        raise Infra('dead driver: %d schedules, %d relevant cases' % (nsched, len(distinct)))
    write_evidence(ctx, level, cov, list(assumptions), len(viols))
    ctx.log('%d schedules, %d lines, %d checks, %d relevant distinct cases, %d violations' %
            (nsched, nlines, nchecks, len(distinct), len(viols)))
    return 1 if viols else 0


def replay(ctx, path):
    """Re-execute a saved schedule and validate it."""
    sched = ctx.path('replay.ndjson')
    h = json.load(open(path))
    with open(sched, 'w') as f:
        f.write(json.dumps(h) + '\n')
    trace = run_schedules(ctx, sched, label='replay')
    res = validate(ctx, trace)
    bad = [v for v in res['violations'] if v['prop'] == ctx.prop]
    for v in bad[:10]:
        print('VIOLATION property=%s replay=%s' % (ctx.prop, path))
        print('  check=%s op=%s step=%d' % (v['check'], v['op'], v['i']))
    if not bad:
        print('replay: no violation of %s' % ctx.prop)
    return 1 if bad else 0


A_WORLD = ['the TLA+ specification (spec/ArcheAbs.tla) states the intended observable semantics',
           'the harness logs what the public API returns; hooks only read state',
           'histories are bounded by the tier (schedules x steps); universes are small (<= 10 entities)']


def mc_pool(ctx):
    return [('MCPool.tla', 'MCPool.cfg' if ctx.quick else 'MCPool_thorough.cfg', dict(timeout=1200))]


def mc_abs(ctx, locks=False):
    """Exhaustive model checking of layer 1 for the tier."""
    if ctx.quick:
        return [('MCAbs.tla', 'MCAbs_locks.cfg' if locks else 'MCAbs_quick.cfg', dict(timeout=600))]
    return [('MCAbs.tla', 'MCAbs_thorough.cfg', dict(timeout=3000)), ('MCAbs.tla', 'MCAbs_locks.cfg', dict(timeout=900))]


def W(rel, profiles, locks=False, pool=False, **kw):
    return lambda ctx: world_check(ctx, rel, profiles, mcs=mc_abs(ctx, locks) + (mc_pool(ctx) if pool else []),
                                   assumptions=A_WORLD, **kw)


def locks_part(ctx, cov):
    """C09: lock sources x entry points x release paths, nesting to the bit limit; both builds."""
    viols = []
    runs = []
    for tags in ('verif', 'verif,tiny'):
        h = build_harness(ctx, tags)
        out = ctx.path('locks-%s.ndjson' % tags.replace(',', '-'))
        r = sh([h, 'locks', '-seed', str(ctx.seed), '-tier', ctx.tier, '-out', out], timeout=600)
        if r.returncode != 0:
            raise Infra('locks mode failed: ' + r.stdout[-2000:])
        res = validate(ctx, out, module='TraceLocks.tla', cfg='TraceLocks.cfg')
        lines = read_lines(out)
        apis = sorted({l['api'] for l in lines if l['op'] == 'struct'})
        runs.append(dict(build=tags, lines=res['lines'], checks=res['checks']['C09'], hidden_state_drift=res['drift'],
                         entry_points=len(apis), max_nesting=max(l['nheld'] for l in lines if 'nheld' in l)))
        for v in res['violations']:
            ln = lines[v['line'] - 1] if v['line'] else {}
            viols.append(('check=%s build=%s (lock trace line %d)' % (v['check'], tags, v['line']),
                          dict(mode='locks', seed=ctx.seed, tags=tags, line=ln, check=v['check'])))
    mc = model_check(ctx, 'MCLocks.tla', 'MCLocks.cfg', timeout=600)
    cov['lock_runs'] = runs
    cov['lock_model'] = mc
    cov['entry_point_table'] = apis
    return viols


def c16(ctx):
    """Type registry: registry traces for many registration counts and interleavings, both builds."""
    mc = [model_check(ctx, 'MCRegistry.tla', 'MCRegistry.cfg', timeout=600)]
    jobs = []
    for tags, limit in (('verif', 256), ('verif,tiny', 64)):
        if ctx.quick:
            counts = sorted({0, 1, 15, 16, 17, limit - 17, limit - 16, limit - 15, limit - 1, limit, limit + 1})
            combos = [(c, (c + ctx.seed) % 3) for c in counts]
        else:
            combos = [(c, i) for c in range(0, limit + 2) for i in range(3)]
        chunks = 2 if ctx.quick else NCPU // 2
        for k in range(chunks):
            jobs.append((tags, [cb for n, cb in enumerate(combos) if n % chunks == k], k))
    def run(job):
        tags, combos, k = job
        h = build_harness(ctx, tags)
        out = ctx.path('registry-%s-%d.ndjson' % (tags.replace(',', '-'), k))
        with open(out, 'w') as f:
            for (count, inter) in combos:
                part = out + '.part'
                r = sh([h, 'registry', '-seed', str(ctx.seed), '-count', str(count), '-interleave', str(inter), '-out', part],
                       timeout=300)
                if r.returncode != 0:
                    raise Infra('registry mode failed: ' + r.stdout[-2000:])
                f.write(open(part).read())
                os.remove(part)
        return out, tags, combos
    built = [build_harness(ctx, t) for t in ('verif', 'verif,tiny')]
    files = parallel(run, jobs)
    results = parallel(lambda f: validate(ctx, f[0], module='TraceRegistry.tla', cfg='TraceRegistry.cfg'), files)
    viols = []
    nlines = nchecks = nruns = 0
    samples = []
    distinct = set()
    for (f, tags, combos), r in zip(files, results):
        nlines += r['lines']
        nchecks += r['checks']['C16']
        nruns += len(combos)
        lines = read_lines(f)
        for ln in lines:
            if ln['op'] in ('register', 'use', 'registerRes'):
                distinct.add(digest([ln['op'], ln.get('type'), ln.get('shape'), ln.get('locked'), ln.get('a'), ln.get('b'), ln['op'] == 'register' and len(ln['snap']['ids'])]))
        if len(samples) < 2:
            samples.append([l for l in lines if l['op'] == 'register'][:1] + [l for l in lines if l['op'] == 'use'][:1])
        for v in r['violations']:
            hdr = [l for l in lines[:v['line']] if l['op'] == 'hdr'][-1]
            viols.append(('check=%s build=%s count=%d interleave=%d' % (v['check'], tags, hdr['count'], hdr['interleave']),
                          dict(mode='registry', seed=ctx.seed, tags=tags, count=hdr['count'], interleave=hdr['interleave'],
                               check=v['check'], line=lines[v['line'] - 1])))
    seen = set()
    nv = 0
    for desc, payload in viols:
        key = (payload['tags'], payload['count'], payload['interleave'])
        if key in seen:
            continue
        seen.add(key)
        d = os.path.join(VERIF, 'evidence', 'replays')
        os.makedirs(d, exist_ok=True)
        p = os.path.join(d, 'C16-%d-%d.json' % (ctx.seed, nv))
        json.dump(payload, open(p, 'w'))
        if nv < 5:
            print('VIOLATION property=C16 replay=%s' % p)
            print('  ' + desc, flush=True)
        nv += 1
    cov = dict(states=sum(m['distinct'] for m in mc), transitions=sum(m['generated'] for m in mc),
               traces_validated_against_impl=nruns, evaluations=nchecks, distinct_nontrivial=len(distinct),
               rule='one trace per (build, number of registered types, interleaving pattern); a case is a registration '
                    '(type shape, locked or not, registry size) or a usability probe of a registered id (create, has, get, '
                    'write/read, add, remove, re-add zeroed, query, mask, relation, remove entity); distinct by digest',
               samples=samples, model_checking=mc, trace_lines=nlines, exhaustive=not ctx.quick)
    write_evidence(ctx, 'model_checking', cov,
                   ['Registry.tla states the intended registry semantics; MCRegistry checks the layout bookkeeping with the real constants',
                    'component types are made at run time with reflect (struct/array/pointer shapes)'], nv)
    ctx.log('%d registry runs, %d lines, %d checks, %d violations' % (nruns, nlines, nchecks, nv))
    return 1 if nv else 0


def c13(ctx):
    """Determinism: the same schedules in three processes; traces identical (TLC), first one conforms exactly."""
    h = build_harness(ctx)
    n = 120 if ctx.quick else 1200
    profs = ['base', 'relations', 'batch']
    chunks = 4 if ctx.quick else NCPU
    jobs = [(os.path.join(PROF, profs[k % len(profs)] + '.json'), ctx.seed * 100 + k, max(1, n // chunks), 'det-%d' % k)
            for k in range(chunks)]
    gens = parallel(lambda j: gen_traces(ctx, j[0], j[1], j[2], label=j[3]), jobs)
    envs = [dict(GOGC='1', GOMAXPROCS='1', VERIF_GCSTRESS='1'), dict(GOGC='off', GOMAXPROCS='16'),
            dict(GOGC='400', GOMAXPROCS='3', VERIF_GCSTRESS='1', GODEBUG='gcstoptheworld=1')]
    def rerun(job):
        (trace, sched), k, env = job
        out = ctx.path('rerun-%s-%d.ndjson' % (os.path.basename(sched), k))
        r = subprocess.run([h, 'run', '-in', sched, '-out', out], env=dict(os.environ, **env), stdout=subprocess.PIPE,
                           stderr=subprocess.STDOUT, text=True, timeout=900)
        if r.returncode != 0:
            raise Infra('runner failed: ' + r.stdout[-2000:])
        return trace, sched, out
    reruns = parallel(rerun, [(g, k, envs[k]) for g in gens for k in range(len(envs))])
    def compare(t):
        trace, sched, out = t
        nl = sum(1 for _ in open(trace))
        rc, o = tlc(ctx, 'TraceEq.tla', 'TraceEq.cfg', env={'TRACE': trace, 'TRACE2': out}, timeout=900)
        m = re.search(r'<<"RESULT", "(.*)">>', o)
        if not m:
            raise Infra('trace comparison failed:\n' + o[-2000:])
        return json.loads(json.loads('"' + m.group(1) + '"'))
    cmp_results = parallel(compare, reruns)
    conf = parallel(lambda g: validate(ctx, g[0]), gens)
    viols = []
    for (trace, sched, out), r in zip(reruns, cmp_results):
        for v in r['violations']:
            viols.append((trace, sched, schedule_of_line(read_lines(trace), v['line']), v))
    drift = 0
    nlines = nsched = 0
    samples = []
    distinct = set()
    for (trace, sched), r in zip(gens, conf):
        lines = read_lines(trace)
        nlines += len(lines)
        nsched += sum(1 for l in lines if l['op'] == 'NewWorld')
        for ln in lines:
            if ln['op'] != 'NewWorld':
                distinct.add(digest([ln['op'], ln['api'], ln['args'], ln['res'], ln.get('events')]))
        if len(samples) < 2:
            samples.append(dict(schedule=lines[0]['args']['name'], first_ops=[dict(op=l['op'], args=l['args'], res=l['res']) for l in lines[1:4]]))
        drift += sum(1 for v in r['violations'] if v['prop'] == 'DRIFT')
        for v in r['violations']:
            if v['prop'] == 'C13':
                viols.append((trace, sched, schedule_of_line(lines, v['line']), v))
    replays = []
    seen = set()
    for trace, sched, k, v in viols:
        if (sched, k) in seen or len(replays) >= 5:
            continue
        seen.add((sched, k))
        p = save_replay(ctx, sched, k, len(replays))
        replays.append(p)
        print('VIOLATION property=C13 replay=%s' % p)
        print('  check=%s op=%s step=%d (trace line %d)' % (v['check'], v['op'], v['i'], v['line']), flush=True)
    mc = [model_check(ctx, 'MCPool.tla', 'MCPool.cfg', timeout=600)]
    cov = dict(states=sum(m['distinct'] for m in mc), transitions=sum(m['generated'] for m in mc),
               traces_validated_against_impl=nsched, evaluations=nlines * len(envs), distinct_nontrivial=len(distinct),
               rule='every schedule is executed in 4 processes (the recording one and 3 replays with GOGC=1+concurrent '
                    'forced GC+GOMAXPROCS=1, GOGC=off+GOMAXPROCS=16, GOGC=400+forced GC+gcstoptheworld); TLC compares '
                    'the traces line by line (handles, iteration order, events, return values, pool dumps); a case is a '
                    'distinct (operation, arguments, outcome, events) line',
               samples=samples, model_checking=mc, process_settings=envs, hidden_state_drift_lines=drift, exhaustive=False)
    write_evidence(ctx, 'model_checking', cov,
                   ['the specification is deterministic by construction (function lookups only, no enumeration of Go maps)',
                    'hash-map seeding differs between processes by Go runtime design; GC timing is varied by GOGC and forced collections'],
                   len(replays))
    ctx.log('%d schedules x %d processes, %d lines compared, %d violations, %d drift lines' % (nsched, len(envs) + 1, nlines, len(replays), drift))
    return 1 if replays else 0


def c14(ctx):
    """Pointer-carrying components under GC pressure (exploration level)."""
    mc = [model_check(ctx, 'GcBarrier.tla', 'GcBarrier.cfg', timeout=300)]
    build_harness(ctx)
    n = 160 if ctx.quick else 2000
    chunks = NCPU
    env = dict(GOGC='1', VERIF_GCSTRESS='1')
    jobs = [(os.path.join(PROF, 'gc.json'), ctx.seed * 100 + k, (n + chunks - 1) // chunks, 'gc-%d' % k) for k in range(chunks)]
    gens = parallel(lambda j: gen_traces(ctx, j[0], j[1], j[2], label=j[3], env=env, crash_ok=True), jobs)
    crashes = [g for g in gens if isinstance(g, dict)]
    pairs = [g for g in gens if not isinstance(g, dict)]
    xv = []
    for c in crashes:
        fatal = [l for l in c['crash'].splitlines() if 'fatal error' in l or 'unexpected signal' in l or l.startswith('panic:')]
        if not fatal:
            raise Infra('generator failed without a runtime fault:\n' + c['crash'][-2000:])
        xv.append(('runtime fault under GC pressure: %s (profile gc, seed %d)' % (fatal[0], c['seed']),
                   dict(mode='gc-crash', profile='gc', seed=c['seed'], n=c['n'], env=c['env'], fault=fatal[:3])))
    results = parallel(lambda p: validate(ctx, p[0]), pairs)
    # a corrupted pointer-carrying value shows up as a value / event / panel mismatch: all of them count for C14 here
    for r in results:
        for v in r['violations']:
            if v['prop'] in ('C01', 'C03', 'C05', 'C08', 'C11'):
                v['prop'] = 'C14'
                v['check'] = 'pointer-payload-intact:' + v['check']
        r['checks']['C14'] = r['checks'].get('C14', 0) + r['checks'].get('C01', 0)
    raw = 0
    ncheck = 0
    for trace, sched in pairs:
        for ln in read_lines(trace):
            if ln['op'] == 'GCCheck' and 'gc' in ln:
                raw = max(raw, ln['gc']['rawPtrCopies'])
                ncheck += 1
    cov = dict(gc_checkpoints=ncheck, raw_copies_into_pointer_columns=raw, process_env=env,
               hazard_note='raw_copies_into_pointer_columns > 0 means untyped byte copies hit pointer-carrying columns; '
                           'GcBarrier.tla shows that such a step loses objects under some collector schedule')
    def rel(ln, prev):
        if ln['op'] == 'GCCheck':
            ln['args'] = ln.get('gc', {})
            return True
        return _ok(ln) and ln['op'] in STRUCT_OPS | {'Set'} and any(v > 0 for x in ln.get('obs', {}).get('ents', []) for c, v in x['vals'])
    if raw > 0:
        print('HAZARD property=C14 %d raw byte copies into pointer-carrying columns were observed' % raw)
    return finish(ctx, rel, pairs, results, mc, 'exploration',
                  ['the Go runtime schedules collections; GOGC=1 plus a goroutine forcing collections concurrently samples GC schedules, it does not enumerate them',
                   'payload objects carry a magic pattern and a finalizer; a token counts as leaked only if unreferenced and unfinalized at two consecutive checkpoints',
                   'GcBarrier.tla (model-checked) reduces the schedule quantifier to: no raw copy into a pointer-carrying column'],
                  cov, xv)


def c19(ctx):
    """Worlds driven concurrently from goroutines under the race detector; each world must behave as if alone."""
    h = build_harness(ctx)
    hr = build_harness(ctx, 'verif', race=True)
    n = 96 if ctx.quick else 960
    traces = []
    trace, sched = gen_traces(ctx, os.path.join(PROF, 'worlds.json'), ctx.seed, n, label='worlds-seq')
    # split the sequential trace by schedule
    seq = []
    for l in open(trace):
        if '"op":"NewWorld"' in l:
            seq.append([])
        seq[-1].append(l)
    viols = []
    results = []
    pairs = []
    races = 0
    runs = []
    for k in ((2, 8, 16) if ctx.quick else (2, 4, 8, 16, 16, 16)):
        prefix = ctx.path('par-%d-%d' % (k, len(runs)))
        logp = prefix + '-race'
        r = subprocess.run([hr, 'worlds', '-in', sched, '-out', prefix, '-k', str(k)],
                           env=dict(os.environ, GORACE='halt_on_error=0 log_path=%s' % logp),
                           stdout=subprocess.PIPE, stderr=subprocess.STDOUT, text=True, timeout=1800)
        racelogs = [open(f).read() for f in glob.glob(logp + '*')]
        nr = sum(t.count('WARNING: DATA RACE') for t in racelogs) + r.stdout.count('WARNING: DATA RACE')
        if r.returncode != 0 and nr == 0:
            fatal = [l for l in r.stdout.splitlines() if 'fatal error' in l or l.startswith('panic:')]
            if not fatal:
                raise Infra('worlds mode failed:\n' + r.stdout[-2000:])
            viols.append(('runtime fault with %d concurrent worlds: %s' % (k, fatal[0]), dict(mode='worlds', k=k, seed=ctx.seed, fault=fatal[:3])))
        if nr:
            races += nr
            first = (racelogs[0] if racelogs else r.stdout)[:1500]
            viols.append(('%d data race(s) reported with %d goroutines driving distinct worlds' % (nr, k),
                          dict(mode='worlds', k=k, seed=ctx.seed, race_report=first)))
        runs.append(dict(goroutines=k, races=nr))
        for g in range(k):
            pf = '%s-%d.ndjson' % (prefix, g)
            if not os.path.exists(pf):
                continue
            # the same schedules, taken from the sequential run
            sf = pf.replace('.ndjson', '-seq.ndjson')
            with open(sf, 'w') as f:
                for i in range(g, len(seq), k):
                    f.writelines(seq[i])
            traces.append((pf, sf))
    def cmp(t):
        pf, sf = t
        rc, o = tlc(ctx, 'TraceEq.tla', 'TraceEq.cfg', env={'TRACE': sf, 'TRACE2': pf}, timeout=900)
        m = re.search(r'<<"RESULT", "(.*)">>', o)
        if not m:
            raise Infra('trace comparison failed:\n' + o[-2000:])
        return json.loads(json.loads('"' + m.group(1) + '"'))
    cmps = parallel(cmp, traces)
    vals = parallel(lambda t: validate(ctx, t[0]), traces)
    for (pf, sf), c, v in zip(traces, cmps, vals):
        for x in c['violations']:
            viols.append(('world driven concurrently differs from the same world driven alone: %s at line %d of %s' % (x['check'], x['line'], os.path.basename(pf)),
                          dict(mode='worlds', trace=os.path.basename(pf), line=x['line'], check=x['check'], seed=ctx.seed)))
        for x in v['violations']:
            if x['prop'] != 'DRIFT':
                viols.append(('concurrently driven world rejected by the sequential specification: %s/%s at line %d' % (x['prop'], x['check'], x['line']),
                              dict(mode='worlds', trace=os.path.basename(pf), line=x['line'], check=x['check'], seed=ctx.seed)))
    nlines = sum(c['lines'] for c in cmps)
    distinct = set()
    samples = []
    for l in open(trace):
        ln = json.loads(l)
        if ln['op'] != 'NewWorld':
            distinct.add(digest([ln['op'], ln['api'], ln['args'], ln['res']]))
        elif len(samples) < 2:
            samples.append(dict(schedule=ln['args']['name'], comps=ln['args']['comps']))
    d = os.path.join(VERIF, 'evidence', 'replays')
    os.makedirs(d, exist_ok=True)
    for i, (desc, payload) in enumerate(viols[:5]):
        p = os.path.join(d, 'C19-%d-%d.json' % (ctx.seed, i))
        json.dump(payload, open(p, 'w'))
        print('VIOLATION property=C19 replay=%s' % p)
        print('  ' + desc, flush=True)
    cov = dict(evaluations=nlines, distinct_nontrivial=len(distinct),
               rule='%d schedules (worlds that register the same Go types under different ids) are replayed by 2..16 goroutines '
                    'in parallel, one world per goroutine at a time, under the Go race detector; every concurrently recorded '
                    'trace is compared by TLC with the trace of the same schedule run alone (TraceEq) and validated against the '
                    'sequential specification (TraceAbs); a case is a distinct (operation, arguments, outcome) line' % n,
               samples=samples, runs=runs, data_races=races, traces_validated_against_impl=len(traces), exhaustive=False)
    write_evidence(ctx, 'exploration', cov,
                   ['the happens-before race detector reports races among the executed accesses of one parallel run; interleavings are sampled, not enumerated',
                    'the harness keeps no shared mutable state between goroutines except mutex-protected type tables'],
                   len(viols))
    ctx.log('%d parallel traces, %d lines compared, %d data races, %d violations' % (len(traces), nlines, races, len(viols)))
    return 1 if viols else 0


def c04(ctx):
    """Masks and filters: recorded calls on real values, judged by the set semantics."""
    mc = [model_check(ctx, 'MCMasks.tla', 'MCMasks.cfg', timeout=600)]
    results = []
    nlines = 0
    samples = []
    ops = {}
    viols = []
    for tags in ('verif', 'verif,tiny'):
        h = build_harness(ctx, tags)
        parts = 4 if ctx.quick else NCPU
        def one(k, tags=tags, h=h, parts=parts):
            out = ctx.path('masks-%s-%d.ndjson' % (tags.replace(',', '-'), k))
            r = sh([h, 'masks', '-seed', str(ctx.seed), '-tier', ctx.tier, '-out', out, '-part', str(k), '-parts', str(parts)])
            if r.returncode != 0:
                raise Infra('masks mode failed: ' + r.stdout[-2000:])
            # every partition needs the header line first
            lines = open(out).read().splitlines()
            if k != 0:
                hdr = json.dumps({'op': 'hdr', 'totalBits': 64 if 'tiny' in tags else 256})
                open(out, 'w').write('\n'.join([hdr] + lines) + '\n')
            return out
        files = parallel(one, list(range(parts)))
        res = parallel(lambda f: validate(ctx, f, module='TraceMasks.tla', cfg='TraceMasks.cfg'), files)
        for f, r in zip(files, res):
            nlines += r['lines']
            results.append(r)
            for v in r['violations']:
                viols.append((f, v))
            for ln in read_lines(f)[1:]:
                key = ln['op'] + ':' + (ln.get('name') or (ln['f']['k'] if 'f' in ln else ''))
                ops[key] = ops.get(key, 0) + 1
                if len(samples) < 3 and ln['op'] != 'hdr' and ops[key] == 1:
                    samples.append(ln)
    nchecks = sum(r['checks']['C04'] for r in results)
    for n, (f, v) in enumerate(viols[:5]):
        d = os.path.join(VERIF, 'evidence', 'replays')
        os.makedirs(d, exist_ok=True)
        p = os.path.join(d, 'C04-%d-%d.json' % (ctx.seed, n))
        json.dump(read_lines(f)[v['line'] - 1], open(p, 'w'))
        print('VIOLATION property=C04 replay=%s' % p)
        print('  check=%s op=%s (recorded call in %s line %d)' % (v['check'], v['op'], os.path.basename(f), v['line']))
    cov = dict(states=sum(m['distinct'] for m in mc), transitions=sum(m['generated'] for m in mc),
               traces_validated_against_impl=len(results), evaluations=nchecks, distinct_nontrivial=nlines - len(results),
               rule='one case = one recorded call group on real ecs.Mask / filter values (all single ids, id pairs '
                    'against the word-boundary set (quick) or all ids (thorough), complements, random masks of every '
                    'density, filter terms up to nesting depth 3 over all component subsets); all are distinct by '
                    'construction; both builds (256 and 64 bits)',
               samples=samples, model_checking=mc, calls_by_kind=ops, exhaustive=False)
    write_evidence(ctx, 'model_checking', cov,
                   ['Masks.tla / ArcheAbs!MatchesMask are the intended set semantics',
                    'mask contents are read back through Mask.Get (cross-checked by TotalBitsSet, IsZero, Contains)'],
                   len(viols))
    ctx.log('%d recorded call groups, %d checks, %d violations' % (nlines, nchecks, len(viols)))
    return 1 if viols else 0


PROPS = {
    'C01': W(rel_C01, [('base', 120, 1500), ('spread', 80, 1000)]),
    'C02': W(rel_C02, [('base', 100, 1500), ('churn', 100, 1000)], pool=True),
    'C03': W(rel_C03, [('base', 100, 1500), ('query', 100, 1000)], scenarios=[os.path.join(SCEN, 'E17-open-relation-filter.ndjson')]),
    'C04': c04,
    'C05': W(rel_C05, [('base', 100, 1500), ('relations', 100, 1000)]),
    'C06': W(rel_C06, [('base', 60, 1000), ('relations', 140, 1500)]),
    'C07': W(rel_C07, [('base', 60, 1000), ('cache', 140, 1500)], locks=True, scenarios=[os.path.join(SCEN, 'E17-open-relation-filter.ndjson')]),
    'C08': W(rel_C08, [('base', 60, 1000), ('batch', 140, 1500)]),
    'C09': W(rel_C09, [('base', 60, 1000), ('locks', 140, 1500)], locks=True, extra=locks_part),
    'C10': W(rel_C10, [('base', 60, 1000), ('faults', 140, 1500)]),
    'C11': W(rel_C11, [('events', 200, 2500)]),
    'C12': lambda ctx: world_check(ctx, rel_C12, [('subs', 200, 2500)], assumptions=A_WORLD,
                                   mcs=[('MCEvents.tla', 'MCEvents.cfg' if ctx.quick else 'MCEvents_thorough.cfg', dict(timeout=1800))]),
    'C16': c16,
    'C13': c13,
    'C14': c14,
    'C15': W(rel_C15, [('resettwin', 160, 2000), ('reset', 40, 500)], pool=True),
    'C17': lambda ctx: world_check(ctx, rel_C17, [('loadtwin', 200, 2500)], mcs=mc_pool(ctx), assumptions=A_WORLD),
    'C18': lambda ctx: world_check(ctx, rel_C18, [('generic', 200, 2500)], assumptions=A_WORLD,
                                   mcs=[('MCGeneric.tla', 'MCGeneric.cfg', dict(timeout=900))] + mc_abs(ctx),
                                   scenarios=[os.path.join(SCEN, 'D8-generic-query-target-aliasing.ndjson')]),
    'C19': c19,
    'C20': W(rel_C20, [('base', 60, 1000), ('resources', 140, 1500)]),
}
