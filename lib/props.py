"""Per-property check definitions."""
import glob
import json
import os

from vlib import *  # noqa

PROF = os.path.join(VERIF, 'profiles')
SCEN = os.path.join(VERIF, 'scenarios')

STRUCT_OPS = {'NewEntity', 'NewEntityWith', 'BuilderNew', 'NewBatch', 'RemoveEntity', 'Exchange', 'Assign',
              'SetRelation', 'BatchExchange', 'BatchSetRelation', 'BatchRemove', 'Reset'}


def _ok(ln):
    return not ln['res']['panic']


def _targets(prev):
    if not prev or 'obs' not in prev:
        return set()
    return {tuple(x['tgt']) for x in prev['obs']['ents'] if x['tgt'] != [0, 0]}


def rel_C01(ln, prev):
    return _ok(ln) and ln['op'] in STRUCT_OPS | {'Set'} and len(ln.get('obs', {}).get('ents', [])) >= 2


def rel_C02(ln, prev):
    return ln['op'] in {'NewEntity', 'NewEntityWith', 'BuilderNew', 'NewBatch', 'RemoveEntity', 'BatchRemove',
                        'Reset'} and _ok(ln)


def rel_C03(ln, prev):
    if ln['op'] == 'Panel' and _ok(ln):
        return ln['panel']['count'] >= 1
    return ln['op'] in {'QNext', 'QStep'} and _ok(ln) and ln['res']['ret'] == 1


def rel_C05(ln, prev):
    a = ln['args']
    return _ok(ln) and (a.get('tgt', [0, 0]) != [0, 0] or any(x['rel'] >= 0 for x in ln.get('obs', {}).get('ents', [])))


def rel_C06(ln, prev):
    if not _ok(ln):
        return False
    t = _targets(prev)
    if ln['op'] == 'RemoveEntity':
        return tuple(ln['args']['e']) in t
    if ln['op'] in {'BatchRemove', 'Reset'}:
        return len(t) > 0
    # reuse: creation / move towards a target while dead targets are around
    return ln['op'] in {'BuilderNew', 'NewBatch', 'SetRelation', 'BatchSetRelation', 'Exchange'} and \
        ln['args'].get('tgt', [0, 0]) != [0, 0]


def rel_C07(ln, prev):
    if any(len(s['orig']) > 0 for s in ln.get('sweep', [])):
        return True
    f = ln['args'].get('f')
    return bool(f) and f['k'] == 'cached'


def rel_C08(ln, prev):
    if ln['op'] not in {'NewBatch', 'BatchExchange', 'BatchSetRelation', 'BatchRemove'} or not _ok(ln):
        return False
    if 'panel' in ln:
        return ln['panel']['count'] >= 1
    if 'qinfo' in ln:
        return ln['qinfo']['count'] >= 1
    return ln['res']['ret'] >= 1 or ln['op'] == 'NewBatch'


def rel_C09(ln, prev):
    return ln.get('lockedBefore', False) or ln['op'] in {'OpenQuery', 'QNext', 'QStep', 'QClose'} or \
        any(e['locked'] for e in ln['events'])


def rel_C10(ln, prev):
    return ln['res']['panic']


def rel_C11(ln, prev):
    return len(ln['events']) > 0


def rel_C12(ln, prev):
    return ln['op'] in STRUCT_OPS | {'QClose', 'QNext', 'QStep'} and _ok(ln)


def rel_C15(ln, prev):
    if ln['op'] == 'TwinEq':
        if ln['api'] == 'reset':
            ln['args'] = dict(of=ln['of'], res=ln['a']['res'], ents=ln['a']['obs']['ents'])
            return True
        return False
    if ln['op'] == 'Reset' and _ok(ln) and prev and 'obs' in prev:
        ln['args'] = dict(before=prev['obs']['ents'], sweep=prev.get('sweep'))
        return True
    return False


def rel_C17(ln, prev):
    if ln['op'] == 'TwinEq':
        if ln['api'] == 'load':
            ln['args'] = dict(of=ln['of'], res=ln['a']['res'], pool=ln['a']['obs']['pool'])
            return True
        return False
    return ln['op'] in {'Dump', 'Load', 'Fork'}


def rel_C20(ln, prev):
    return ln['op'] in {'ResAdd', 'ResRemove', 'ResGet'} or (len(ln.get('obs', {}).get('res', [])) > 0 and ln['op'] in STRUCT_OPS)


def world_check(ctx, relevant, profiles, mcs=(), scenarios=(), level='model_checking', assumptions=(), tags='verif',
                trace_cfg='TraceAbs.cfg', extra_cov=None, extra=None):
    """Generic check of the world family: model checking + trace validation of recorded executions."""
    build_harness(ctx, tags)
    mc = [model_check(ctx, m, c, **kw) for (m, c, kw) in mcs]
    jobs = []
    for (prof, nq, nt) in profiles:
        n = nq if ctx.quick else nt
        chunks = min(NCPU, max(1, n // 10))
        per = (n + chunks - 1) // chunks
        for k in range(chunks):
            jobs.append((os.path.join(PROF, prof + '.json'), ctx.seed * 100 + k, per, '%s-%d' % (prof, k)))
    gens = parallel(lambda j: gen_traces(ctx, j[0], j[1], j[2], tags=tags, label=j[3]), jobs)
    pairs = list(gens)
    for s in scenarios:
        pairs.append((run_schedules(ctx, s, tags=tags, label=os.path.basename(s)), s))
    ctx.log('recorded %d trace files' % len(pairs))
    results = parallel(lambda p: validate(ctx, p[0], cfg=trace_cfg), pairs)
    xv = []
    if extra:
        extra_cov = dict(extra_cov or {})
        xv = extra(ctx, extra_cov)
    return finish(ctx, relevant, pairs, results, mc, level, assumptions, extra_cov, xv)


def finish(ctx, relevant, pairs, results, mc, level, assumptions, extra_cov=None, extra_viols=()):
    known = [k for k in load_known() if k.get('status') == 'open' and k.get('property') == ctx.prop]
    nsched = nlines = nchecks = 0
    distinct = set()
    samples = []
    viols = []
    kf = []
    ops = {}
    for (trace, sched), res in zip(pairs, results):
        lines = read_lines(trace)
        nlines += len(lines)
        nchecks += res['checks'].get(ctx.prop, 0) if isinstance(res['checks'], dict) else res['checks']
        prev = None
        name = ''
        for ln in lines:
            if ln['op'] == 'NewWorld':
                nsched += 1
                prev = None
                name = ln['args']['name']
            else:
                ln.setdefault('args', {})
                ln.setdefault('res', {'panic': False, 'ret': -1})
                ln.setdefault('events', [])
                if relevant(ln, prev):
                    distinct.add(digest([ln['op'], ln['api'], ln['args'], ln.get('obs', {}).get('ents')]))
                    ops[ln['op']] = ops.get(ln['op'], 0) + 1
                    if len(samples) < 3:
                        samples.append(dict(schedule=name, op=ln['op'], api=ln['api'], args=ln['args'], res=ln['res']))
            prev = ln
        for v in res['violations']:
            if v['prop'] != ctx.prop:
                continue
            k = schedule_of_line(lines, v['line'])
            sname = [l for l in lines if l['op'] == 'NewWorld'][k]['args']['name']
            match = [f for f in known if f['match'].get('scenario') == sname and f['match'].get('check') == v['check']]
            if match:
                kf.append((match[0], v))
            else:
                viols.append((trace, sched, k, v))
    for f, v in {f['id']: (f, v) for f, v in kf}.values():
        print('KNOWN-FINDING: property=%s %s [%s]' % (ctx.prop, f['what'], f['id']), flush=True)
    replays = []
    seen = set()
    for trace, sched, k, v in viols:
        if (sched, k) in seen or len(replays) >= 5:
            continue
        seen.add((sched, k))
        p = save_replay(ctx, sched, k, len(replays), upto=v['i'])
        replays.append(p)
        print('VIOLATION property=%s replay=%s' % (ctx.prop, p))
        print('  check=%s op=%s step=%d (trace line %d)' % (v['check'], v['op'], v['i'], v['line']), flush=True)
    for n, (desc, payload) in enumerate(extra_viols):
        d = os.path.join(VERIF, 'evidence', 'replays')
        os.makedirs(d, exist_ok=True)
        p = os.path.join(d, '%s-%d-x%d.json' % (ctx.prop, ctx.seed, n))
        json.dump(payload, open(p, 'w'))
        if n < 5:
            print('VIOLATION property=%s replay=%s' % (ctx.prop, p))
            print('  ' + desc, flush=True)
    viols = viols + [None] * len(extra_viols)
    cov = dict(
        states=sum(m['distinct'] for m in mc), transitions=sum(m['generated'] for m in mc),
        traces_validated_against_impl=nsched, evaluations=nchecks, distinct_nontrivial=len(distinct),
        rule='evaluations = checks of this property evaluated by TLC on recorded trace lines; a case is one '
             'trace line (operation, entry point, arguments, resulting entity table) for which the property\'s '
             'relevance predicate holds; distinct by digest',
        samples=samples, model_checking=mc, trace_lines=nlines, relevant_lines_by_op=ops,
        exhaustive=False, known_findings=[f['id'] for f, v in kf])
    if extra_cov:
        cov.update(extra_cov)
    if not viols and (nsched == 0 or len(distinct) < 2):
        raise Infra('dead driver: %d schedules, %d relevant cases' % (nsched, len(distinct)))
    write_evidence(ctx, level, cov, list(assumptions), len(viols))
    ctx.log('%d schedules, %d lines, %d checks, %d relevant distinct cases, %d violations' %
            (nsched, nlines, nchecks, len(distinct), len(viols)))
    return 1 if viols else 0


def replay(ctx, path):
    """Re-execute a saved schedule and validate it."""
    sched = ctx.path('replay.ndjson')
    h = json.load(open(path))
    with open(sched, 'w') as f:
        f.write(json.dumps(h) + '\n')
    trace = run_schedules(ctx, sched, label='replay')
    res = validate(ctx, trace)
    bad = [v for v in res['violations'] if v['prop'] == ctx.prop]
    for v in bad[:10]:
        print('VIOLATION property=%s replay=%s' % (ctx.prop, path))
        print('  check=%s op=%s step=%d' % (v['check'], v['op'], v['i']))
    if not bad:
        print('replay: no violation of %s' % ctx.prop)
    return 1 if bad else 0


A_WORLD = ['the TLA+ specification (spec/ArcheAbs.tla) states the intended observable semantics',
           'the harness logs what the public API returns; hooks only read state',
           'histories are bounded by the tier (schedules x steps); universes are small (<= 10 entities)']


def mc_pool(ctx):
    return [('MCPool.tla', 'MCPool.cfg' if ctx.quick else 'MCPool_thorough.cfg', dict(timeout=1200))]


def mc_abs(ctx, locks=False):
    """Exhaustive model checking of layer 1 for the tier."""
    if ctx.quick:
        return [('MCAbs.tla', 'MCAbs_locks.cfg' if locks else 'MCAbs_quick.cfg', dict(timeout=600))]
    return [('MCAbs.tla', 'MCAbs_thorough.cfg', dict(timeout=3000)), ('MCAbs.tla', 'MCAbs_locks.cfg', dict(timeout=900))]


def W(rel, profiles, locks=False, pool=False, **kw):
    return lambda ctx: world_check(ctx, rel, profiles, mcs=mc_abs(ctx, locks) + (mc_pool(ctx) if pool else []),
                                   assumptions=A_WORLD, **kw)


def locks_part(ctx, cov):
    """C09: lock sources x entry points x release paths, nesting to the bit limit; both builds."""
    viols = []
    runs = []
    for tags in ('verif', 'verif,tiny'):
        h = build_harness(ctx, tags)
        out = ctx.path('locks-%s.ndjson' % tags.replace(',', '-'))
        r = sh([h, 'locks', '-seed', str(ctx.seed), '-tier', ctx.tier, '-out', out], timeout=600)
        if r.returncode != 0:
            raise Infra('locks mode failed: ' + r.stdout[-2000:])
        res = validate(ctx, out, module='TraceLocks.tla', cfg='TraceLocks.cfg')
        lines = read_lines(out)
        apis = sorted({l['api'] for l in lines if l['op'] == 'struct'})
        runs.append(dict(build=tags, lines=res['lines'], checks=res['checks']['C09'], hidden_state_drift=res['drift'],
                         entry_points=len(apis), max_nesting=max(l['nheld'] for l in lines if 'nheld' in l)))
        for v in res['violations']:
            ln = lines[v['line'] - 1] if v['line'] else {}
            viols.append(('check=%s build=%s (lock trace line %d)' % (v['check'], tags, v['line']),
                          dict(mode='locks', seed=ctx.seed, tags=tags, line=ln, check=v['check'])))
    mc = model_check(ctx, 'MCLocks.tla', 'MCLocks.cfg', timeout=600)
    cov['lock_runs'] = runs
    cov['lock_model'] = mc
    cov['entry_point_table'] = apis
    return viols


def c04(ctx):
    """Masks and filters: recorded calls on real values, judged by the set semantics."""
    mc = [model_check(ctx, 'MCMasks.tla', 'MCMasks.cfg', timeout=600)]
    results = []
    nlines = 0
    samples = []
    ops = {}
    viols = []
    for tags in ('verif', 'verif,tiny'):
        h = build_harness(ctx, tags)
        parts = 4 if ctx.quick else NCPU
        def one(k, tags=tags, h=h, parts=parts):
            out = ctx.path('masks-%s-%d.ndjson' % (tags.replace(',', '-'), k))
            r = sh([h, 'masks', '-seed', str(ctx.seed), '-tier', ctx.tier, '-out', out, '-part', str(k), '-parts', str(parts)])
            if r.returncode != 0:
                raise Infra('masks mode failed: ' + r.stdout[-2000:])
            # every partition needs the header line first
            lines = open(out).read().splitlines()
            if k != 0:
                hdr = json.dumps({'op': 'hdr', 'totalBits': 64 if 'tiny' in tags else 256})
                open(out, 'w').write('\n'.join([hdr] + lines) + '\n')
            return out
        files = parallel(one, list(range(parts)))
        res = parallel(lambda f: validate(ctx, f, module='TraceMasks.tla', cfg='TraceMasks.cfg'), files)
        for f, r in zip(files, res):
            nlines += r['lines']
            results.append(r)
            for v in r['violations']:
                viols.append((f, v))
            for ln in read_lines(f)[1:]:
                key = ln['op'] + ':' + (ln.get('name') or (ln['f']['k'] if 'f' in ln else ''))
                ops[key] = ops.get(key, 0) + 1
                if len(samples) < 3 and ln['op'] != 'hdr' and ops[key] == 1:
                    samples.append(ln)
    nchecks = sum(r['checks']['C04'] for r in results)
    for n, (f, v) in enumerate(viols[:5]):
        d = os.path.join(VERIF, 'evidence', 'replays')
        os.makedirs(d, exist_ok=True)
        p = os.path.join(d, 'C04-%d-%d.json' % (ctx.seed, n))
        json.dump(read_lines(f)[v['line'] - 1], open(p, 'w'))
        print('VIOLATION property=C04 replay=%s' % p)
        print('  check=%s op=%s (recorded call in %s line %d)' % (v['check'], v['op'], os.path.basename(f), v['line']))
    cov = dict(states=sum(m['distinct'] for m in mc), transitions=sum(m['generated'] for m in mc),
               traces_validated_against_impl=len(results), evaluations=nchecks, distinct_nontrivial=nlines - len(results),
               rule='one case = one recorded call group on real ecs.Mask / filter values (all single ids, id pairs '
                    'against the word-boundary set (quick) or all ids (thorough), complements, random masks of every '
                    'density, filter terms up to nesting depth 3 over all component subsets); all are distinct by '
                    'construction; both builds (256 and 64 bits)',
               samples=samples, model_checking=mc, calls_by_kind=ops, exhaustive=False)
    write_evidence(ctx, 'model_checking', cov,
                   ['Masks.tla / ArcheAbs!MatchesMask are the intended set semantics',
                    'mask contents are read back through Mask.Get (cross-checked by TotalBitsSet, IsZero, Contains)'],
                   len(viols))
    ctx.log('%d recorded call groups, %d checks, %d violations' % (nlines, nchecks, len(viols)))
    return 1 if viols else 0


PROPS = {
    'C01': W(rel_C01, [('base', 120, 1500), ('spread', 80, 1000)]),
    'C02': W(rel_C02, [('base', 100, 1500), ('churn', 100, 1000)], pool=True),
    'C03': W(rel_C03, [('base', 100, 1500), ('query', 100, 1000)]),
    'C04': c04,
    'C05': W(rel_C05, [('base', 100, 1500), ('relations', 100, 1000)]),
    'C06': W(rel_C06, [('base', 60, 1000), ('relations', 140, 1500)]),
    'C07': W(rel_C07, [('base', 60, 1000), ('cache', 140, 1500)], locks=True),
    'C08': W(rel_C08, [('base', 60, 1000), ('batch', 140, 1500)]),
    'C09': W(rel_C09, [('base', 60, 1000), ('locks', 140, 1500)], locks=True, extra=locks_part),
    'C10': W(rel_C10, [('base', 60, 1000), ('faults', 140, 1500)]),
    'C11': W(rel_C11, [('events', 200, 2500)]),
    'C12': lambda ctx: world_check(ctx, rel_C12, [('subs', 200, 2500)], assumptions=A_WORLD,
                                   mcs=[('MCEvents.tla', 'MCEvents.cfg' if ctx.quick else 'MCEvents_thorough.cfg', dict(timeout=1800))]),
    'C15': W(rel_C15, [('resettwin', 160, 2000), ('reset', 40, 500)], pool=True),
    'C17': lambda ctx: world_check(ctx, rel_C17, [('loadtwin', 200, 2500)], mcs=mc_pool(ctx), assumptions=A_WORLD),
    'C20': W(rel_C20, [('base', 60, 1000), ('resources', 140, 1500)]),
}
