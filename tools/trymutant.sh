#!/bin/bash
# usage: tools/trymutant.sh <seeded-id> <tier> <props...> : applies the seeded change to /repo, runs the checks, undoes it
id=$1; tier=$2; shift 2
cd /verif
git -C /repo status --short | grep -q . && { echo "/repo is dirty"; exit 2; }
git -C /repo apply /verif/seeded/$id/patch.diff || exit 2
for p in "$@"; do
  s=$(date +%s)
  timeout 1800 ./check $p --tier $tier > /tmp/try-$id-$p.log 2>&1; rc=$?
  e=$(date +%s)
  echo "$id $p rc=$rc $((e-s))s :: $(grep -m1 -A1 VIOLATION /tmp/try-$id-$p.log | tr '\n' ' ' | cut -c1-230)"
done
git -C /repo checkout -- .
