#!/bin/bash
# Demonstrates that the specification is bound to the code: corrupting one logged field makes TLC reject the trace.
# usage: tools/binding_demo.sh   (builds the harness from /repo, records 5 schedules, validates, corrupts, validates again)
set -e
export GOFLAGS=-mod=mod GOPROXY=off GOSUMDB=off GOTOOLCHAIN=local GOWORK=off
d=$(mktemp -d /tmp/verif-binding-XXXX); trap "rm -rf $d" EXIT
cp -r /verif/harness $d/h; cp /repo/go.sum $d/h/; (cd $d/h && go build -tags verif -o $d/harness .)
cp -r /verif/spec $d/spec
python3 - $d <<'PY'
import json,sys
d=sys.argv[1]; p=json.load(open('/verif/profiles/base.json')); p['shape']=True; json.dump(p,open(d+'/prof.json','w'))
PY
$d/harness gen -profile $d/prof.json -seed 7 -n 5 -out $d/t.ndjson > /dev/null
val() { (cd $d/spec && TRACE=$1 timeout 600 java -Xmx3g -Xss64m -cp /opt/veriftools/tla/tla2tools.jar:/opt/veriftools/tla/CommunityModules-deps.jar tlc2.TLC -workers 1 -metadir $d/meta -config TraceAbs.cfg TraceAbs.tla 2>&1 | grep -o '"violations.*' | cut -c1-260); }
echo "unchanged trace:            $(val $d/t.ndjson)"
python3 - $d <<'PY'
import json,sys
d=sys.argv[1]; L=open(d+'/t.ndjson').read().splitlines()
def mut(name, f):
    out=[]; done=False
    for l in L:
        x=json.loads(l)
        if not done and f(x): done=True
        out.append(json.dumps(x))
    open(d+'/'+name,'w').write('\n'.join(out)+'\n')
def value(x):
    for e in x.get('obs',{}).get('ents',[]):
        if e['vals']: e['vals'][0][1]+=1; return True
def handle(x):
    if x['op'] in ('NewEntity','BuilderNew') and x['res']['handles']: x['res']['handles'][0][1]+=1; return True
def bits(x):
    if x.get('events'): x['events'][0]['bits']^=32; return True
def row(x):
    for n in x.get('shape',{}).get('nodes',[]):
        for t in n['tbls']:
            if t['rows']: t['rows'][0][1]+=1; return True
mut('value.ndjson',value); mut('handle.ndjson',handle); mut('bits.ndjson',bits); mut('row.ndjson',row)
open(d+'/dropped.ndjson','w').write('\n'.join(L[:10]+L[11:])+'\n')
PY
echo "one component value +1:     $(val $d/value.ndjson)"
echo "one returned generation +1: $(val $d/handle.ndjson)"
echo "one event type bit flipped: $(val $d/bits.ndjson)"
echo "one hidden-state row +1:    $(val $d/row.ndjson)"
echo "one line dropped:           $(val $d/dropped.ndjson)"
