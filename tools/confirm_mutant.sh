#!/bin/bash
# usage: tools/confirm_mutant.sh <worktree> <outdir> <seeded-id> <property> : confirms a seeded change and stores it under /verif/seeded/<seeded-id>
set -u
wt=$1; out=$2; id=$3; prop=$4
export GOFLAGS= GOPROXY=off GOSUMDB=off GOTOOLCHAIN=local
cd $wt || exit 2
git checkout -q -- . ; git clean -fdq
demo=$(grep -l 'func Test' $out/*_test.go | head -1)
pkgdir=$(grep -oE '(ecs|generic|filter|listener)/' $out/README.md | head -1); pkgdir=${pkgdir:-ecs/}
tname=$(grep -oE 'func (Test[A-Za-z0-9_]+)' $demo | head -1 | awk '{print $2}')
cp $demo $pkgdir/zz_seeded_demo_test.go
base=$(timeout 600 go test -count=1 -run "^$tname\$" ./$pkgdir 2>&1 | tail -1)
git apply $out/patch.diff || { echo "patch does not apply"; exit 2; }
build=$(timeout 600 go build ./... 2>&1 | tail -1)
withp=$(timeout 600 go test -count=1 -run "^$tname\$" ./$pkgdir 2>&1 | tail -1)
rm -f $pkgdir/zz_seeded_demo_test.go
suite=$(timeout 900 go test -count=1 ./... 2>&1 | grep -E "^(FAIL|--- FAIL|panic:)" | head -3)
git checkout -q -- . ; git clean -fdq
echo "demo on unchanged: $base"; echo "demo with patch:   $withp"; echo "suite with patch failures: [$suite] build: [$build]"
case "$base" in ok*) ;; *) echo "NOT CONFIRMED (demo fails on unchanged code)"; exit 1;; esac
case "$withp" in ok*) echo "NOT CONFIRMED (demo passes with patch)"; exit 1;; esac
[ -z "$suite" ] || { echo "NOT CONFIRMED (suite fails)"; exit 1; }
d=/verif/seeded/$id; mkdir -p $d
cp $out/patch.diff $d/patch.diff; cp $demo $d/demo_test.go; cp $out/README.md $d/README.md
python3 - "$d" "$prop" "$tname" "$pkgdir" <<'PY'
import json,sys
d,prop,tname,pkg=sys.argv[1:5]
json.dump({"breaks":prop,"demo":"copy demo_test.go into %s and run: go test -count=1 -run '^%s$' ./%s"%(pkg,tname,pkg),
 "confirmed":"tools/confirm_mutant.sh: demo passes on the unchanged tree, fails with patch.diff applied; go build ./... and go test ./... pass with the patch",
 "needs_to_manifest":"see README.md","caught_by":[],"missed_by":[]}, open(d+'/meta.json','w'), indent=1)
PY
echo CONFIRMED $id
