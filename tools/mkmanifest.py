#!/usr/bin/env python3
"""Regenerates /verif/MANIFEST.json from the table below."""
import json, os, subprocess
V = os.path.dirname(os.path.dirname(os.path.abspath(__file__)))
hook_commits = ['e827dc4']
TRUST = ('trusted base: TLC, the TLA+ specification in /verif/spec as statement of intent, the Go harness '
         '(logs what the public API returns), read-only hooks behind build tag verif')
WORLD_T = ('TLC model checking of spec/ArcheAbs.tla (MCAbs) + TLC trace validation (spec/TraceAbs.tla) of '
           'recorded executions of the real ecs.World driven by seeded symbolic schedules')
C = {
 'C01': ('model_checking', 'Layer-1 operation semantics model-checked exhaustively over a small universe (OthersUntouched, NewCompsZero, WellFormed); every recorded step of random histories (ids in all mask words / layout chunks, sizes 0,1,3,8,24, capacity increments 1,2,3,128) validated by TLC: reported components (Mask, Ids, Has, Get) and every value equal the ghost world after every call.', '5/C01', WORLD_T),
 'C02': ('model_checking', 'Freshness/aliveness rules model-checked; on recorded histories TLC checks after every call that Alive() of every handle ever issued, the alive set, Stats().Used and the All() query equal the ghost, and that every returned handle is fresh.', '5/C02', WORLD_T),
 'C03': ('model_checking', 'Query panels (Count, EntityAt for all indices and out of range, mixed Next/Step walks, position data) on every kind of filter, registered or not, and on batch-result queries; TLC compares with QuerySet of the specification.', '5/C03', WORLD_T),
 'C04': ('model_checking', 'Word-by-word algorithms model-checked against set semantics (MCMasks, all mask pairs of a scaled-down layout); recorded calls on real ecs.Mask / filter values for all ids, id pairs across word boundaries, complements, random masks and nested filter terms judged by TLC against Masks.tla / MatchesMask; both builds.', '5/C04', 'TLC evaluation of Masks.tla / ArcheAbs!MatchesMask on recorded calls (TraceMasks.tla) + MCMasks'),
 'C05': ('model_checking', 'Target rule, one-relation rule, alive-or-zero rule model-checked (TargetRule, AssignedTargetAlive, OneRelation, RelFilterSelects); recorded histories through every ID-based entry point that takes a target (alive, zero, dead, self) validated by TLC incl. Relations.Get, Query.Relation and relation-filter panels.', '5/C05', WORLD_T),
 'C06': ('model_checking', 'RemoveNeverFails / ChildrenKeepDeadTarget model-checked; recorded histories with dying targets (tables empty, non-empty, emptied later, batch removal, Reset) and reuse validated by TLC: survivors keep components, values and the dead target; nothing shows up under a foreign target.', '5/C06', WORLD_T),
 'C07': ('model_checking', 'After every recorded call every registered filter is run next to its original and TLC checks equal selection (and equality with the specification); batch operations through registered filters are validated like those through plain filters; Unregister must return the original.', '5/C07', WORLD_T),
 'C08': ('model_checking', 'BatchIsFold model-checked on the specification (batch = single calls one by one, each legal); recorded batch calls (all ID-based batch entry points, Q variants with panels, held queries) validated by TLC: count, affected set, resulting world.', '5/C08', WORLD_T),
 'C09': ('model_checking', 'LockedRejects model-checked; recorded histories with held plain/cached/batch-result queries, nested, and removal listeners that attempt a change: every structural call under lock must panic and change nothing, IsLocked must equal the ghost after every call.', '5/C09', WORLD_T),
 'C10': ('model_checking', 'FaultNoChange model-checked for every illegal-argument class the model enumerates; recorded histories with 12-45 % illegal calls: TLC predicts legality of every call from the ghost world, requires a panic for every illegal one and an unchanged observation afterwards.', '5/C10', WORLD_T),
 'C11': ('model_checking', 'EventsTruthful/EventsComplete model-checked (one event per changed entity, content = state difference); recorded event streams of a listener subscribed to everything validated by TLC per call incl. delivery-time facts (lock state, aliveness, mask, values, target) and deferred delivery for held batch queries.', '5/C11', WORLD_T),
 'C12': ('model_checking', 'Subscription rule model-checked over all listeners and event shapes of a small universe (documented rule = code-shaped evaluation, monotone, Dispatch union gate sound); recorded histories with random subscription masks and component restrictions, single Callback listeners and Dispatch compositions of 1-6 sub-listeners (some added mid-history): TLC computes from the full specified event stream exactly what each (sub-)listener must receive and compares content per call.', '5/C12', WORLD_T + '; MCEvents'),
 'C13': ('model_checking', 'The same symbolic schedules are executed in four processes (different GOGC, GOMAXPROCS, forced concurrent GC); TLC compares the traces line by line (handles, iteration orders, events, return values, pool dumps) and validates the first against the deterministic specification, including exact entity-pool prediction.', '5/C13', 'TLC trace equality (spec/TraceEq.tla) across processes + TLC trace validation (TraceAbs, EntityPool)'),
 'C16': ('model_checking', 'Layout bookkeeping model-checked with the real constants (256 ids, chunk 16) over all interleavings of registration and table creation; registry traces for 0..257 registered run-time-made types (struct / array / pointer shapes, ecs.Relation first / later / nested / absent), three interleavings, both builds: ids, ComponentIDs, ComponentInfo, ResourceIDs judged by Registry.tla; every registered id probed for full usability; over-limit and locked registration must panic and roll back.', '5/C16', 'TLC model checking (MCRegistry) + TLC trace validation of registry traces (TraceRegistry.tla)'),
 'C17': ('model_checking', 'Entity pool model-checked (MCPool); twin worlds: the original keeps running, a fresh or used-and-reset world with another capacity increment loads the JSON-round-tripped dump and receives the same creations/removals: TLC checks identical handles, pool dumps, Alive answers for every handle ever issued, identical second dump; loading into a used world must panic.', '5/C17', WORLD_T + '; EntityPool.tla, twin-world comparison lines'),
 'C15': ('model_checking', 'ResetGivesInit model-checked; twin worlds: after every Reset a fresh world with the same registrations, filters and listener is created and both receive the same operations; TLC validates both against the specification (after Reset the ghost is the initial world) and checks identical handles, pool dumps, entity tables, event bags, query results and resources, over several reset cycles.', '5/C15', WORLD_T),
 'C18': ('model_checking', 'Builder state machine with the compile cache model-checked over all call sequences (MCGeneric: every query uses the filter of the current configuration); every generic call (MapN New/NewWith/NewBatch[Q]/Add/Assign/Remove/AddBatch[Q]/RemoveBatch[Q]/RemoveEntities/Get for arities 1-12, Map[T], Exchange, FilterN builder methods, Register/Unregister and Query for arities 0-12) is executed on the real world through generated adapters and logged as the ID-based operation it documents as its equivalent, so the same layer-1 specification judges its effect; QueryN.Get / MapN.Get are compared position by position with World.Get; FilterN queries must select exactly what the configuration at query time denotes (GenericFilter.tla).', '5/C18', WORLD_T + '; GenericFilter.tla, MCGeneric'),
 'C20': ('model_checking', 'Resource map semantics validated by TLC on recorded histories interleaving Add/Remove with entity operations, locks and Reset (exact pointer identity via tokens).', '5/C20', WORLD_T),
}
NA = {
 'C14': 'check under construction in this round',
 'C19': 'check under construction in this round',
}
checks = []
for pid in sorted(C):
    cat, text, ref, tech = C[pid]
    checks.append(dict(property_id=pid, quick_cmd='./check %s --tier quick' % pid,
                       thorough_cmd='./check %s --tier thorough' % pid,
                       evidence_file='evidence/%s.json' % pid,
                       replay_cmd_template='./check %s --replay {path}' % pid,
                       engine='tlc',
                       level_claimed=dict(category=cat, text=text, design_ref='DESIGN.md section ' + ref),
                       level_note=TRUST, technique=tech))
m = dict(version=1,
         setup_cmd='cd /verif/harness && cp /repo/go.sum . && GOFLAGS=-mod=mod GOPROXY=off GOSUMDB=off GOTOOLCHAIN=local GOWORK=off go build -tags verif -o /dev/null . && cd /verif/spec && for f in ArcheAbs TraceAbs MCAbs Masks TraceMasks MCMasks EntityPool MCPool Locks MCLocks TraceLocks Registry MCRegistry TraceRegistry MCEvents TraceEq GenericFilter MCGeneric; do tla-sany $f.tla >/dev/null || exit 1; done',
         hooks=dict(guard='verif', enable='go build -tags verif (harness module /verif/harness, replace github.com/mlange-42/arche => /repo)',
                    baseline_off_cmd='for m in $(cat /w/out/gomods.txt); do MF=$(cd /repo/$m && . /w/out/goenv.sh && gomodflag); (cd /repo/$m && go test $MF -json -vet=off -count=1 -timeout 25m ./...); done',
                    source_commits=hook_commits, add_only=True),
         engines=[dict(name='tlc', path='/opt/veriftools/tla/tla2tools.jar', serves_properties=sorted(C), kind_free_text='TLC model checker: exhaustive model checking of the TLA+ specification and trace validation of recorded executions')],
         checks=checks,
         not_applicable=[dict(property_id=k, reason=v) for k, v in sorted(NA.items())],
         notes='All checks: ./check <ID> --tier quick|thorough; VERIF_SEED selects the schedules. Known findings: KNOWN_FINDINGS.json.')
json.dump(m, open(os.path.join(V, 'MANIFEST.json'), 'w'), indent=1)
print('wrote MANIFEST.json with', len(checks), 'checks')
