#!/bin/sh
# usage: tools/runall.sh [tier] [ids...]   runs the checks one after another and prints a summary
tier=${1:-quick}; shift
here=$(cd "$(dirname "$0")/.." && pwd)
ids=${*:-$(python3 -c "import json;print(' '.join(c['property_id'] for c in json.load(open('$here/MANIFEST.json'))['checks']))")}
cd $here
for p in $ids; do
  s=$(date +%s)
  ./check $p --tier $tier > /tmp/runall-$tier-$p.log 2>&1; rc=$?
  e=$(date +%s)
  echo "$p rc=$rc $((e-s))s $(grep -c VIOLATION /tmp/runall-$tier-$p.log) violations; $(tail -1 /tmp/runall-$tier-$p.log | cut -c1-150)"
done
