package main

import (
	"strings"
	"github.com/mlange-42/arche/ecs"
)

// Session drives one world, and after a fork a twin world that receives the same operations.
type Session struct {
	h    Header
	a, b *World
	out  *lineWriter
	i    int
	// load twin: the dump object that was loaded, and how it looked at that time
	forkDump    *ecs.EntityDump
	forkDumpRec map[string]interface{}
}

func newSession(h Header, out *lineWriter) *Session {
	s := &Session{h: h, out: out}
	s.a = NewWorld(h)
	out.write(newWorldLine(s.a, 0))
	return s
}

func pick(m map[string]interface{}, keys ...string) map[string]interface{} {
	r := map[string]interface{}{}
	for _, k := range keys {
		if v, ok := m[k]; ok {
			r[k] = v
		}
	}
	return r
}

// step executes an operation on the world and on its twin, and logs the comparison record.
func (s *Session) step(op Op) map[string]interface{} {
	s.i++
	op.W = 0
	la := s.a.Exec(s.i, op)
	s.out.write(la)
	ok := !la["res"].(map[string]interface{})["panic"].(bool)
	if s.b != nil {
		opb := op
		opb.W = 1
		lb := s.b.Exec(s.i, opb)
		s.out.write(lb)
		if strings.HasPrefix(op.Op, "Batch") && (!ok || lb["res"].(map[string]interface{})["panic"].(bool)) {
			// A batch call that panics has processed the tables before the offending one: what is left behind follows
			// the table order, which legitimately differs between a reset and a fresh world ("up to iteration
			// order"; only single-entity failures are promised to change nothing). The worlds are no longer comparable.
			s.b = nil
			return la
		}
		eq := map[string]interface{}{"i": s.i, "w": 0, "op": "TwinEq", "api": s.h.Twin, "of": op.Op,
			"a": pick(la, "res", "obs", "events", "dump", "panel", "qinfo", "pos"),
			"b": pick(lb, "res", "obs", "events", "dump", "panel", "qinfo", "pos")}
		if s.forkDump != nil {
			// loading must not tie the dump to the loaded world: the dump must still load the same way
			eq["dumpThen"] = s.forkDumpRec
			eq["dumpNow"] = dumpRec(s.forkDump)
			if s.i%7 == 0 {
				c := NewWorld(Header{CapInc: []int{1, 2, 128}[s.i%3]})
				r := guard(func(r *result) { c.w.LoadEntities(s.forkDump) })
				cd := map[string]interface{}{"ok": false}
				if !r.panicked {
					d := c.w.DumpEntities()
					cd = dumpRec(&d)
				}
				eq["reload"] = cd
			}
		}
		s.out.write(eq)
		// A batch removal recycles ids in table order, which legitimately differs between a reset
		// and a fresh world ("up to iteration order"); later handles are then not comparable.
		if op.Op == "BatchRemove" && ok && la["res"].(map[string]interface{})["ret"].(int) >= 2 {
			s.b = nil
		}
	}
	switch {
	case s.h.Twin == "reset" && op.Op == "Reset" && ok:
		s.forkReset()
	case s.h.Twin == "load" && op.Op == "Dump" && ok && s.b == nil:
		s.forkLoad()
	}
	return la
}

// forkReset creates a fresh world with the same registrations, filters and listener as the reset world.
func (s *Session) forkReset() {
	b := NewWorld(s.h)
	b.issued = append([]ecs.Entity{}, s.a.issued...)
	b.epoch = s.a.epoch
	b.valSeq, b.resSeq = s.a.valSeq, s.a.resSeq
	for range s.a.queries {
		b.queries = append(b.queries, &openQuery{})
	}
	regs := []interface{}{}
	for i := range s.a.regs {
		// keep registration indices aligned: register every filter, unregister those no longer live
		f, d := b.buildFilter(s.a.regSpec[i])
		cf := b.w.Cache().Register(f)
		b.regs = append(b.regs, &cf)
		b.regOrig = append(b.regOrig, f)
		b.regSpec = append(b.regSpec, s.a.regSpec[i])
		b.regLive = append(b.regLive, s.a.regLive[i])
		if !s.a.regLive[i] {
			b.w.Cache().Unregister(&cf)
		}
		regs = append(regs, map[string]interface{}{"f": d, "live": s.a.regLive[i]})
	}
	s.b = b
	line := newWorldLine(b, 1)
	line["op"] = "Fork"
	line["api"] = "reset"
	line["i"] = s.i
	line["args"].(map[string]interface{})["regs"] = regs
	s.out.write(line)
}

// forkLoad creates a fresh (or used and reset) world and loads the last dump of the first world into it.
func (s *Session) forkLoad() {
	h := s.h
	h.CapInc = []int{1, 2, 3, 128}[len(s.a.issued)%4]
	b := NewWorld(h)
	preKind := (len(s.a.issued) + s.i) % 4
	pre := preKind != 0
	switch preKind {
	case 1:
		// a world that was used and reset while entities were alive
		for k := 0; k < 3; k++ {
			b.w.NewEntity(b.ids(b.compNums[:1])...)
		}
		e := b.w.NewEntity()
		b.w.RemoveEntity(e)
		b.w.Reset()
	case 2:
		// a world whose entities were all removed one by one before the reset (ids recycled, generations raised)
		es := []ecs.Entity{}
		for k := 0; k < 4; k++ {
			es = append(es, b.w.NewEntity(b.ids(b.compNums[:1])...))
		}
		b.w.RemoveEntity(es[1])
		es[1] = b.w.NewEntity()
		for _, e := range es {
			b.w.RemoveEntity(e)
		}
		b.w.Reset()
	case 3:
		// emptied by a batch removal, reset twice
		for k := 0; k < 3; k++ {
			b.w.NewEntity(b.ids(b.compNums[:1])...)
		}
		b.w.Batch().RemoveEntities(ecs.All())
		b.w.Reset()
		b.w.Reset()
	}
	b.issued = append([]ecs.Entity{}, s.a.issued...)
	b.epoch = s.a.epoch
	b.valSeq, b.resSeq = s.a.valSeq, s.a.resSeq
	for range s.a.queries {
		b.queries = append(b.queries, &openQuery{})
	}
	s.forkDump = s.a.lastDump
	s.forkDumpRec = dumpRec(s.a.lastDump)
	res := guard(func(r *result) { b.w.LoadEntities(s.a.lastDump) })
	s.b = b
	line := newWorldLine(b, 1)
	line["op"] = "Fork"
	line["api"] = "load"
	line["i"] = s.i
	a := line["args"].(map[string]interface{})
	a["dump"] = dumpRec(s.a.lastDump)
	a["prehistory"] = pre
	a["regs"] = []interface{}{}
	line["res"] = map[string]interface{}{"panic": res.panicked, "cls": clsOf(res), "msg": res.msg, "ret": -1, "handles": [][2]int{}}
	s.out.write(line)
}
