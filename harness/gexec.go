package main

import (
	"strings"
	"unsafe"

	"github.com/mlange-42/arche/ecs"
	"github.com/mlange-42/arche/generic"
)

// Execution of operations through the generic API (property C18).
// Every generic call is logged as the abstract operation it documents as its equivalent,
// so that the same specification judges it.

type gfState struct {
	ar     int
	f      gfilter
	hasRel bool
}

func seqIDs(n int) []int {
	r := make([]int, n)
	for i := range r {
		r[i] = i
	}
	return r
}

// gc13 is a static component type that generic worlds do NOT register up front: a generic filter may name it (Without)
// before the world knows it; it is registered by the first ID-based operation that uses component number 13.
type gc13 struct{ V int64 }

const lateComp = 13

var gcLate = generic.T[gc13]()

// gs13 is the Map adapter of the late type (the generated adapters cover the types declared up front).
type gs13 struct{ m generic.Map[gc13] }

func (a *gs13) Get(e ecs.Entity) unsafe.Pointer { return unsafe.Pointer(a.m.Get(e)) }
func (a *gs13) Has(e ecs.Entity) bool           { return a.m.Has(e) }
func (a *gs13) Set(e ecs.Entity, v int) unsafe.Pointer {
	return unsafe.Pointer(a.m.Set(e, &gc13{V: int64(v)}))
}
func (a *gs13) GetRelation(e ecs.Entity) ecs.Entity             { return a.m.GetRelation(e) }
func (a *gs13) SetRelation(e, t ecs.Entity)                     { a.m.SetRelation(e, t) }
func (a *gs13) SetRelationBatch(f ecs.Filter, t ecs.Entity) int { return a.m.SetRelationBatch(f, t) }
func (a *gs13) SetRelationBatchQ(f ecs.Filter, t ecs.Entity) gquery {
	q := a.m.SetRelationBatchQ(f, t)
	return &gsq13{q}
}

type gsq13 struct{ q generic.Query1[gc13] }

func (a *gsq13) Q() *ecs.Query          { return &a.q.Query }
func (a *gsq13) Relation() ecs.Entity   { return a.q.Relation() }
func (a *gsq13) Ptrs() []unsafe.Pointer { return []unsafe.Pointer{unsafe.Pointer(a.q.Get())} }

func (x *World) gsingle(i int) gsingle {
	if i == lateComp && x.lateDone {
		return &gs13{generic.NewMap[gc13](x.w)}
	}
	return newGSingle(i, x.w)
}

func (x *World) gcomps(nums []int) []generic.Comp {
	r := make([]generic.Comp, len(nums))
	for i, n := range nums {
		if n == lateComp {
			r[i] = gcLate
			continue
		}
		r[i] = gcComps[n]
	}
	return r
}

// ensureLate registers gc13 if an ID-based operation is about to use component 13.
func (x *World) ensureLate(op Op) {
	if !x.h.Generic || x.lateDone || strings.HasPrefix(op.Api, "generic.") {
		return
	}
	uses := op.C == lateComp && (op.Op == "Set" || op.Op == "Read")
	for _, l := range [][]int{op.Ids, op.Add, op.Rem} {
		uses = uses || contains(l, lateComp)
	}
	if !uses || x.w.IsLocked() {
		return
	}
	if id := ecs.ComponentID[gc13](x.w); idNum(id) != lateComp {
		panic("verif: late generic component type did not get id 13")
	}
	x.lateDone = true
}

// getpos compares the pointers of a generic Get with the ID-based Get, position by position:
// 1 = same non-nil pointer, 0 = both nil, -1 = mismatch.
func getpos(ptrs []unsafe.Pointer, ref func(i int) unsafe.Pointer) []int {
	res := make([]int, len(ptrs))
	for i, p := range ptrs {
		r := ref(i)
		switch {
		case p == nil && r == nil:
			res[i] = 0
		case p == r:
			res[i] = 1
		default:
			res[i] = -1
		}
	}
	return res
}

// gpanel runs a panel on a generic query and adds the positional Get checks.
func (x *World) gpanel(gq gquery, ar int, walk []int, wantRel bool) map[string]interface{} {
	x.posExtra = func(q *ecs.Query) map[string]interface{} {
		m := map[string]interface{}{}
		r := guard(func(r *result) {
			m["getpos"] = getpos(gq.Ptrs(), func(i int) unsafe.Pointer { return q.Get(x.idOf(i)) })
		})
		if r.panicked {
			m["getpos"] = []int{-9}
		}
		m["grel"] = [2]int{-1, -1}
		rr := guard(func(r *result) { m["grel"] = ent(gq.Relation()) })
		m["grelPanic"] = rr.panicked
		return m
	}
	defer func() { x.posExtra = nil }()
	return x.panel(gq.Q(), walk)
}

func (x *World) gmapFor(op Op) gmap {
	if op.HasRel {
		return newGMap(op.Ar, x.w, gcComps[op.Rel])
	}
	return newGMap(op.Ar, x.w)
}

// Family B: MapN over the static types 0, 1, 3 .. 11, 13 in this order - none of them is a relation. A relation type the
// map does NOT own (2 or 12) can then be configured, so Remove / RemoveBatch / Add with a target are ACCEPTED calls for
// every arity (family A owns relation 2 from arity 3 on: there a target given to Remove is always rejected).
type gmapB interface {
	Add(e ecs.Entity, target ...ecs.Entity)
	Remove(e ecs.Entity, target ...ecs.Entity)
	RemoveBatch(f ecs.Filter, target ...ecs.Entity) int
}

var famB = []int{0, 1, 3, 4, 5, 6, 7, 8, 9, 10, 11, lateComp}

func shiftIDs(n int) []int { return append([]int{}, famB[:n]...) }

func newGMapB(n int, w *ecs.World, rel ...generic.Comp) gmapB {
	switch n {
	case 1:
		m := generic.NewMap1[gc0](w, rel...)
		return &m
	case 2:
		m := generic.NewMap2[gc0, gc1](w, rel...)
		return &m
	case 3:
		m := generic.NewMap3[gc0, gc1, gc3](w, rel...)
		return &m
	case 4:
		m := generic.NewMap4[gc0, gc1, gc3, gc4](w, rel...)
		return &m
	case 5:
		m := generic.NewMap5[gc0, gc1, gc3, gc4, gc5](w, rel...)
		return &m
	case 6:
		m := generic.NewMap6[gc0, gc1, gc3, gc4, gc5, gc6](w, rel...)
		return &m
	case 7:
		m := generic.NewMap7[gc0, gc1, gc3, gc4, gc5, gc6, gc7](w, rel...)
		return &m
	case 8:
		m := generic.NewMap8[gc0, gc1, gc3, gc4, gc5, gc6, gc7, gc8](w, rel...)
		return &m
	case 9:
		m := generic.NewMap9[gc0, gc1, gc3, gc4, gc5, gc6, gc7, gc8, gc9](w, rel...)
		return &m
	case 10:
		m := generic.NewMap10[gc0, gc1, gc3, gc4, gc5, gc6, gc7, gc8, gc9, gc10](w, rel...)
		return &m
	case 11:
		m := generic.NewMap11[gc0, gc1, gc3, gc4, gc5, gc6, gc7, gc8, gc9, gc10, gc11](w, rel...)
		return &m
	case 12:
		m := generic.NewMap12[gc0, gc1, gc3, gc4, gc5, gc6, gc7, gc8, gc9, gc10, gc11, gc13](w, rel...)
		return &m
	}
	panic("verif: bad arity for map family B")
}

func (x *World) gmapBFor(op Op) gmapB {
	if op.Ar == 12 && !x.lateDone && !x.w.IsLocked() {
		// arity 12 needs the late type: make it known the way an ID-based operation would
		if id := ecs.ComponentID[gc13](x.w); idNum(id) != lateComp {
			panic("verif: late generic component type did not get id 13")
		}
		x.lateDone = true
	}
	if op.HasRel {
		return newGMapB(op.Ar, x.w, gcComps[op.Rel])
	}
	return newGMapB(op.Ar, x.w)
}

func (x *World) gexchangeFor(op Op) *generic.Exchange {
	ex := generic.NewExchange(x.w)
	// every third operation re-configures a long-lived Exchange object instead of building a fresh one:
	// Adds / Removes REPLACE what was configured before (one object per relation setting, as WithRelation cannot be undone)
	if x.gexSeq%3 == 2 {
		key := -1
		if op.HasRel {
			key = op.Rel
		}
		if x.gexKeep == nil {
			x.gexKeep = map[int]*generic.Exchange{}
		}
		if old, ok := x.gexKeep[key]; ok {
			x.gexSeq++
			add, rem := op.Add, op.Rem
			if add == nil {
				add = []int{}
			}
			if rem == nil {
				rem = []int{}
			}
			return old.Adds(x.gcomps(add)...).Removes(x.gcomps(rem)...)
		}
		x.gexKeep[key] = ex
	}
	// the builder calls commute; which one comes first alternates with the operation (a configuration must not
	// depend on the order in which it was put together)
	x.gexSeq++
	relFirst := x.gexSeq%2 == 0
	if op.HasRel && relFirst {
		ex = ex.WithRelation(gcComps[op.Rel])
	}
	if x.gexSeq%4 < 2 {
		if op.Add != nil {
			ex = ex.Adds(x.gcomps(op.Add)...)
		}
		if op.Rem != nil {
			ex = ex.Removes(x.gcomps(op.Rem)...)
		}
	} else {
		if op.Rem != nil {
			ex = ex.Removes(x.gcomps(op.Rem)...)
		}
		if op.Add != nil {
			ex = ex.Adds(x.gcomps(op.Add)...)
		}
	}
	if op.HasRel && !relFirst {
		ex = ex.WithRelation(gcComps[op.Rel])
	}
	return ex
}

func tgtArg(has bool, t ecs.Entity) []ecs.Entity {
	if has {
		return []ecs.Entity{t}
	}
	return nil
}

// execGeneric executes a generic operation. It fills args and returns the result, an optional panel
// and whether the operation was handled.
func (x *World) execGeneric(op Op, line map[string]interface{}, args map[string]interface{}) (res result, panel map[string]interface{}, handled bool) {
	w := x.w
	e := x.entity(op.E)
	tgt := x.entity(op.Tgt)
	ta := tgtArg(op.HasTgt, tgt)
	handled = true
	heldQ := func(r *result, gq gquery) {
		if op.Hold {
			x.queries = append(x.queries, &openQuery{q: *gq.Q(), open: true})
			r.ret = len(x.queries) - 1
			line["qinfo"] = x.qinfo(&x.queries[r.ret].q)
			return
		}
		panel = x.gpanel(gq, op.Ar, op.Walk, op.HasRel)
	}
	switch op.Op {
	case "BuilderNew":
		ids := op.Ids
		if op.Api != "generic.Exchange.NewEntity" {
			ids = seqIDs(op.Ar)
		}
		args["ids"] = nonNil(ids)
		args["vals"] = nonNil(op.Vals)
		args["withVals"] = op.WithV
		args["hasRel"] = op.HasRel
		args["rel"] = op.Rel
		args["hasTgt"] = op.HasTgt
		args["tgt"] = ent(tgt)
		res = guard(func(r *result) {
			var en ecs.Entity
			switch op.Api {
			case "generic.Exchange.NewEntity":
				o2 := op
				o2.Add, o2.Rem = op.Ids, nil
				en = x.gexchangeFor(o2).NewEntity(ta...)
			case "generic.Map.NewWith":
				en = x.gmapFor(op).NewWith(op.Vals, ta...)
			default:
				en = x.gmapFor(op).New(ta...)
			}
			x.addIssued(r, en)
		})
	case "NewBatch":
		args["ids"] = seqIDs(op.Ar)
		args["vals"] = []int{}
		args["withVals"] = false
		args["hasRel"] = op.HasRel
		args["rel"] = op.Rel
		args["hasTgt"] = op.HasTgt
		args["tgt"] = ent(tgt)
		args["n"] = op.N
		args["q"] = op.Q
		args["hold"] = op.Hold
		res = guard(func(r *result) {
			m := x.gmapFor(op)
			if op.Q {
				gq := m.NewBatchQ(op.N, ta...)
				cnt := gq.Q().Count()
				for k := 0; k < cnt; k++ {
					x.addIssued(r, gq.Q().EntityAt(k))
				}
				heldQ(r, gq)
				return
			}
			before := map[ecs.Entity]bool{}
			for _, h := range x.listAll() {
				before[h] = true
			}
			m.NewBatch(op.N, ta...)
			for _, h := range x.listAll() {
				if !before[h] {
					x.addIssued(r, h)
				}
			}
		})
	case "Exchange":
		add, rem := op.Add, op.Rem
		switch op.Api {
		case "generic.Map.Add":
			add, rem = seqIDs(op.Ar), nil
		case "generic.Map.Remove":
			add, rem = nil, seqIDs(op.Ar)
		case "generic.MapB.Add":
			add, rem = shiftIDs(op.Ar), nil
		case "generic.MapB.Remove":
			add, rem = nil, shiftIDs(op.Ar)
		}
		args["e"] = ent(e)
		args["add"] = nonNil(add)
		args["rem"] = nonNil(rem)
		args["hasRel"] = op.HasRel && op.HasTgt // a relation that is configured but gets no target: plain exchange
		args["rel"] = op.Rel
		args["hasTgt"] = op.HasTgt
		args["tgt"] = ent(tgt)
		res = guard(func(r *result) {
			switch op.Api {
			case "generic.Map.Add":
				x.gmapFor(op).Add(e, ta...)
			case "generic.Map.Remove":
				x.gmapFor(op).Remove(e, ta...)
			case "generic.MapB.Add":
				x.gmapBFor(op).Add(e, ta...)
			case "generic.MapB.Remove":
				x.gmapBFor(op).Remove(e, ta...)
			case "generic.Exchange.Add":
				x.gexchangeFor(op).Add(e, ta...)
			case "generic.Exchange.Remove":
				x.gexchangeFor(op).Remove(e, ta...)
			default:
				x.gexchangeFor(op).Exchange(e, ta...)
			}
		})
	case "Assign":
		args["e"] = ent(e)
		args["ids"] = seqIDs(op.Ar)
		args["vals"] = nonNil(op.Vals)
		args["hasRel"] = false
		args["rel"] = 0
		args["hasTgt"] = false
		args["tgt"] = [2]int{0, 0}
		res = guard(func(r *result) { newGMap(op.Ar, w).Assign(e, op.Vals) })
	case "Set":
		args["e"] = ent(e)
		args["c"] = op.C
		args["v"] = op.V
		res = guard(func(r *result) {
			p := x.gsingle(op.C).Set(e, op.V)
			if !w.Alive(e) {
				return // accepted for a stale handle: the line records "no panic", the specification objects
			}
			if p != w.Get(e, x.idOf(op.C)) {
				panic("verif: generic Set returned a pointer different from World.Get")
			}
		})
	case "SetRelation":
		args["e"] = ent(e)
		args["rel"] = op.Rel
		args["tgt"] = ent(tgt)
		res = guard(func(r *result) { x.gsingle(op.Rel).SetRelation(e, tgt) })
	case "Read":
		args["e"] = ent(e)
		args["c"] = op.C
		line["getpos"] = []int{}
		res = guard(func(r *result) {
			switch op.Api {
			case "generic.Map.Get":
				// positional Get of a MapN: every position must be World.Get of that component
				args["c"] = 0
				m := newGMap(op.Ar, w)
				ptrs := m.Get(e) // the generic call alone decides whether the line records a panic
				r.ret = op.Ar
				if !w.Alive(e) {
					// accepted for a stale handle: nothing to compare with (World.Get rejects it)
					line["getpos"] = make([]int, len(ptrs))
					return
				}
				line["getpos"] = getpos(ptrs, func(i int) unsafe.Pointer { return w.Get(e, x.idOf(i)) })
			case "generic.Map1.Has":
				r.ret = b2i(x.gsingle(op.C).Has(e))
			case "generic.Map1.GetRelation":
				r.handles = append(r.handles, ent(x.gsingle(op.C).GetRelation(e)))
			default:
				r.ret = b2i(x.gsingle(op.C).Get(e) != nil)
			}
		})
	case "BatchExchange":
		add, rem := op.Add, op.Rem
		switch op.Api {
		case "generic.Map.AddBatch", "generic.Map.AddBatchQ":
			add, rem = seqIDs(op.Ar), nil
		case "generic.Map.RemoveBatch", "generic.Map.RemoveBatchQ":
			add, rem = nil, seqIDs(op.Ar)
		case "generic.MapB.RemoveBatch":
			add, rem = nil, shiftIDs(op.Ar)
		}
		f, fd := x.buildFilter(op.F)
		args["f"] = fd
		args["add"] = nonNil(add)
		args["rem"] = nonNil(rem)
		args["hasRel"] = op.HasRel && op.HasTgt
		args["rel"] = op.Rel
		args["tgt"] = ent(tgt)
		args["q"] = op.Q
		args["hold"] = op.Hold
		args["noRelPanic"] = op.HasTgt && !op.HasRel
		res = guard(func(r *result) {
			switch op.Api {
			case "generic.Map.AddBatch":
				r.ret = x.gmapFor(op).AddBatch(f, ta...)
			case "generic.Map.AddBatchQ":
				heldQ(r, x.gmapFor(op).AddBatchQ(f, ta...))
			case "generic.Map.RemoveBatch":
				r.ret = x.gmapFor(op).RemoveBatch(f, ta...)
			case "generic.Map.RemoveBatchQ":
				heldQ(r, x.gmapFor(op).RemoveBatchQ(f, ta...))
			case "generic.MapB.RemoveBatch":
				r.ret = x.gmapBFor(op).RemoveBatch(f, ta...)
			default:
				r.ret = x.gexchangeFor(op).ExchangeBatch(f, ta...)
			}
		})
	case "BatchSetRelation":
		f, fd := x.buildFilter(op.F)
		args["f"] = fd
		args["rel"] = op.Rel
		args["tgt"] = ent(tgt)
		args["q"] = op.Q
		args["hold"] = op.Hold
		res = guard(func(r *result) {
			s := x.gsingle(op.Rel)
			if op.Q {
				o2 := op
				o2.Ar = 1
				gq := s.SetRelationBatchQ(f, tgt)
				if op.Hold {
					heldQ(r, gq)
				} else {
					panel = x.panel(gq.Q(), op.Walk)
				}
				return
			}
			r.ret = s.SetRelationBatch(f, tgt)
		})
	case "BatchRemove":
		// MapN.RemoveEntities(exclusive): the filter is All(ids) or its exclusive form
		k := "all"
		if op.Q {
			k = "excl"
		}
		spec := &FSpec{K: k, Ids: seqIDs(op.Ar), Tgt: -1}
		_, fd := x.buildFilter(spec)
		args["f"] = fd
		res = guard(func(r *result) { r.ret = newGMap(op.Ar, w).RemoveEntities(op.Q) })
	case "GNewFilter":
		args["ar"] = op.Ar
		res = guard(func(r *result) {
			x.gfs = append(x.gfs, &gfState{ar: op.Ar, f: newGFilter(op.Ar)})
			r.ret = len(x.gfs) - 1
		})
	case "GBuild":
		args["gf"] = op.Qi
		args["m"] = op.Api[len("generic.Filter."):]
		args["ids"] = nonNil(op.Ids)
		args["hasTgt"] = op.HasTgt
		args["tgt"] = ent(tgt)
		res = guard(func(r *result) {
			f := x.gfs[op.Qi].f
			switch op.Api {
			case "generic.Filter.With":
				f.With(x.gcomps(op.Ids)...)
			case "generic.Filter.Optional":
				f.Optional(x.gcomps(op.Ids)...)
			case "generic.Filter.Without":
				f.Without(x.gcomps(op.Ids)...)
			case "generic.Filter.Exclusive":
				f.Exclusive()
			case "generic.Filter.WithRelation":
				f.WithRelation(gcComps[op.Ids[0]], ta...)
				x.gfs[op.Qi].hasRel = true
			case "generic.Filter.Register":
				f.Register(w)
			case "generic.Filter.Unregister":
				f.Unregister(w)
			}
		})
	case "GQuery":
		args["gf"] = op.Qi
		args["hasTgt"] = op.HasTgt
		args["tgt"] = ent(tgt)
		args["walk"] = nonNil(op.Walk)
		args["hold"] = op.Hold
		res = guard(func(r *result) {
			st := x.gfs[op.Qi]
			gq := st.f.Query(w, ta...)
			if op.Hold {
				heldQ(r, gq)
				return
			}
			panel = x.gpanel(gq, st.ar, op.Walk, true)
		})
	default:
		handled = false
	}
	return
}
