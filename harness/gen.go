package main

import (
	"strings"
	"math/rand"
	"sort"

	"github.com/mlange-42/arche/ecs"
)

// Profile steers the online schedule generator.
type Profile struct {
	Name         string         `json:"name"`
	Comps        []CompSpec     `json:"comps"`
	CapIncs      []int          `json:"capIncs"`
	Listener     int            `json:"listener"` // percentage of worlds with a listener
	Probe        bool           `json:"probe"`
	Steps        int            `json:"steps"`
	MaxEnts      int            `json:"maxEnts"`
	FaultPct     int            `json:"faultPct"`
	NRes         int            `json:"nres"`
	Weights      map[string]int `json:"weights"`
	MaxBatch     int            `json:"maxBatch"`
	HoldPct      int            `json:"holdPct"`
	OpenRelOK    bool           `json:"openRelOK"` // allow relation filters whose inner filter matches non-relation tables (known finding E17)
	Sweep        bool           `json:"sweep"`
	Shape        bool           `json:"shape"`
	MaxRegs      int            `json:"maxRegs"`
	MaxOpen      int            `json:"maxOpen"`
	Twin         string         `json:"twin"`         // "" | "reset" | "load"
	WeightsB     map[string]int `json:"weightsAfter"` // weights once a "load" twin exists
	PermuteTypes bool           `json:"permuteTypes"`
	GCEvery      int            `json:"gcEvery"`
	TrackPay     bool           `json:"trackPayloads"`
	Generic      bool           `json:"generic"`      // drive the generic API (static component types at ids 0..12)
	RandListener bool           `json:"randListener"` // random subscription masks / component restrictions
	NewestPct    int            `json:"newestPct"`    // extra chance to remove / target the entity issued last
	RetargetPct  int            `json:"retargetPct"`  // chance per step of the "target dies, id recycled, child re-targeted" plan
	DispatchPct  int            `json:"dispatchPct"`  // share of worlds with a listener.Dispatch
}

type generator struct {
	rng  *rand.Rand
	p    *Profile
	x    *World
	ops  []Op
	rels []int
	nons []int
	ss   *Session
	sparseDone bool
	// focus: a structural anomaly was reported by the hook; prefer operations on relation nodes and
	// registered filters so that latent corruption becomes observable (the verdict stays observable-only)
	focus bool
	// pending steps of a generic filter life cycle (see "gfilter")
	gplan []Op
	// pending steps of a directed plan, played back to back
	plan []Op
	// number of raw copies into pointer columns seen so far (hook counter); an increase triggers MoveStress
	rawSeen int64
}

// relationNodeMasks lists the component sets of the relation nodes of the world (from World.Stats).
func (g *generator) relationNodeMasks() (res [][]int) {
	defer func() {
		if recover() != nil {
			res = [][]int{}
		}
	}()
	res = [][]int{}
	st := g.x.w.Stats()
	for i := range st.Nodes {
		nd := &st.Nodes[i]
		if nd.HasRelation && nd.IsActive {
			m := []int{}
			for _, c := range nd.ComponentIDs {
				m = append(m, int(c))
			}
			res = append(res, m)
		}
	}
	return res
}

var focusWeights = map[string]int{"create": 34, "remove": 24, "setrel": 10, "batchsetrel": 4, "panel": 6, "register": 4,
	"batchremove": 2, "exchange": 8, "batchcreate": 6, "set": 2}

func (g *generator) pct(p int) bool { return g.rng.Intn(100) < p }

func (g *generator) aliveRefs() (res []int) {
	defer func() {
		if recover() != nil {
			res = []int{}
		}
	}()
	res = []int{}
	seen := map[ecs.Entity]bool{}
	for i, e := range g.x.issued {
		if i < g.x.epoch {
			continue
		}
		if g.x.w.Alive(e) && !seen[e] {
			seen[e] = true
			res = append(res, i)
		}
	}
	return res
}

func (g *generator) deadRefs() (res []int) {
	defer func() {
		if recover() != nil {
			res = []int{}
		}
	}()
	res = []int{}
	for i, e := range g.x.issued {
		if i < g.x.epoch {
			continue
		}
		if !g.x.w.Alive(e) {
			res = append(res, i)
		}
	}
	return res
}

func (g *generator) pick(v []int) int { return v[g.rng.Intn(len(v))] }

// maskOf reads the component set of an entity; a world corrupted by the code under test must not crash the driver.
func (g *generator) maskOf(ref int) (res []int) {
	defer func() {
		if recover() != nil {
			res = []int{}
		}
	}()
	m := g.x.w.Mask(g.x.issued[ref])
	return g.x.maskIDs(&m)
}

func contains(v []int, x int) bool {
	for _, y := range v {
		if y == x {
			return true
		}
	}
	return false
}

// subset draws a random subset with at most max elements, in random order.
func (g *generator) subset(v []int, max int) []int {
	if len(v) == 0 || max == 0 {
		return []int{}
	}
	perm := g.rng.Perm(len(v))
	n := g.rng.Intn(min(max, len(v)) + 1)
	res := []int{}
	for _, i := range perm[:n] {
		res = append(res, v[i])
	}
	return res
}

func min(a, b int) int {
	if a < b {
		return a
	}
	return b
}

// compSet draws a legal component set for creation (at most one relation component).
func (g *generator) compSet() []int {
	res := g.subset(g.nons, 3)
	if len(g.rels) > 0 && g.pct(45) {
		res = append(res, g.pick(g.rels))
		g.rng.Shuffle(len(res), func(i, j int) { res[i], res[j] = res[j], res[i] })
	}
	return res
}

func (g *generator) relOf(ids []int) int {
	for _, c := range ids {
		if contains(g.rels, c) {
			return c
		}
	}
	return -1
}

func (g *generator) vals(ids []int) []int {
	res := make([]int, len(ids))
	for i, c := range ids {
		g.x.valSeq++
		mx := 200
		if ci := g.x.comps[c]; ci != nil {
			mx = ci.maxVal()
		}
		res[i] = 1 + g.x.valSeq%mx
		if mx <= 200 {
			res[i] = 1 + g.x.valSeq%199
		}
	}
	return res
}

// recycledTargets lists alive entities whose id equals the id of a dead entity that some alive entity
// still has as its relation target (same id, other generation).
func (g *generator) recycledTargets() (res []int) {
	defer func() {
		if recover() != nil {
			res = []int{}
		}
	}()
	res = []int{}
	alive := g.aliveRefs()
	for _, c := range alive {
		m := g.maskOf(c)
		rel := g.relOf(m)
		if rel < 0 {
			continue
		}
		t := g.x.w.Relations().Get(g.x.issued[c], g.x.idOf(rel))
		if t.IsZero() || g.x.w.Alive(t) {
			continue
		}
		for _, r := range alive {
			if g.x.issued[r].ID() == t.ID() && !contains(res, r) {
				res = append(res, r)
			}
		}
	}
	return res
}

// targetFor draws a target for an operation on entity ref: if ref currently points to a dead target whose id has been
// recycled, the recycler is preferred (same id, other generation: where comparisons by id alone go wrong).
func (g *generator) targetFor(ref int, faulty bool) (res int) {
	defer func() {
		if recover() != nil {
			res = g.target(faulty)
		}
	}()
	if !faulty && g.pct(60) {
		m := g.maskOf(ref)
		if rel := g.relOf(m); rel >= 0 {
			t := g.x.w.Relations().Get(g.x.issued[ref], g.x.idOf(rel))
			if !t.IsZero() && g.pct(35) {
				return -1 // the explicit zero target for an entity that has a target: "reset", not "keep"
			}
			if !t.IsZero() && !g.x.w.Alive(t) {
				for _, r := range g.aliveRefs() {
					if g.x.issued[r].ID() == t.ID() {
						return r
					}
				}
			}
		}
	}
	return g.target(faulty)
}

// retainedDead lists references of dead entities that some alive child still has as its target.
func (g *generator) retainedDead() (res []int) {
	defer func() {
		if recover() != nil {
			res = []int{}
		}
	}()
	res = []int{}
	for _, c := range g.aliveRefs() {
		rel := g.relOf(g.maskOf(c))
		if rel < 0 {
			continue
		}
		t := g.x.w.Relations().Get(g.x.issued[c], g.x.idOf(rel))
		if t.IsZero() || g.x.w.Alive(t) {
			continue
		}
		for i := len(g.x.issued) - 1; i >= g.x.epoch; i-- {
			if g.x.issued[i] == t {
				if !contains(res, i) {
					res = append(res, i)
				}
				break
			}
		}
	}
	return res
}

// target draws a relation target reference: mostly alive or zero; dead when faulty.
func (g *generator) target(faulty bool) int {
	alive := g.aliveRefs()
	dead := g.deadRefs()
	if faulty && len(dead) > 0 {
		return g.pickDead(dead)
	}
	if g.pct(25) {
		if rt := g.recycledTargets(); len(rt) > 0 {
			return g.pick(rt)
		}
	}
	if len(alive) == 0 || g.pct(20) {
		return -1
	}
	if g.pct(12 + g.p.NewestPct/2) {
		return alive[len(alive)-1] // the entity issued last
	}
	// prefer few distinct targets
	if len(alive) > 3 && g.pct(70) {
		return alive[g.rng.Intn(3)]
	}
	return g.pick(alive)
}

// filter draws a symbolic filter.
func (g *generator) filter(depth int, allowCached bool) *FSpec {
	if allowCached && g.pct(30) {
		live := []int{}
		for i, l := range g.x.regLive {
			if l {
				live = append(live, i)
			}
		}
		if len(live) > 0 {
			return &FSpec{K: "cached", Reg: g.pick(live), Tgt: -1}
		}
	}
	all := g.x.compNums
	r := g.rng.Intn(100)
	switch {
	case r < 25:
		return &FSpec{K: "all", Ids: g.subset(all, 2), Tgt: -1}
	case r < 40:
		inc := g.subset(all, 2)
		rest := []int{}
		for _, c := range all {
			if !contains(inc, c) {
				rest = append(rest, c)
			}
		}
		return &FSpec{K: "mf", Ids: inc, Exc: g.subset(rest, 2), Tgt: -1}
	case r < 50:
		return &FSpec{K: "excl", Ids: g.subset(all, 3), Tgt: -1}
	case r < 75 && len(g.rels) > 0:
		// relation filter; the inner filter requires a relation component unless open filters are allowed
		rel := g.pick(g.rels)
		inner := &FSpec{K: "all", Ids: append([]int{rel}, g.subset(g.nons, 1)...), Tgt: -1}
		if g.pct(30) {
			inner = &FSpec{K: "mf", Ids: []int{rel}, Exc: g.subset(g.nons, 1), Tgt: -1}
		}
		if g.p.OpenRelOK && g.pct(30) {
			inner = &FSpec{K: "all", Ids: g.subset(g.nons, 1), Tgt: -1}
		}
		t := g.target(false)
		if g.pct(15) {
			if dead := g.deadRefs(); len(dead) > 0 {
				t = g.pickDead(dead)
			}
		}
		if g.pct(30) {
			// a dead target that children still point to: its children are exactly what the filter must select
			if rd := g.retainedDead(); len(rd) > 0 {
				t = g.pick(rd)
			}
		}
		return &FSpec{K: "rel", Subs: []*FSpec{inner}, Tgt: t}
	case r < 85 && depth > 0:
		k := []string{"and", "or", "xor"}[g.rng.Intn(3)]
		return &FSpec{K: k, Subs: []*FSpec{g.filter(depth-1, false), g.filter(depth-1, false)}, Tgt: -1}
	case r < 90 && depth > 0:
		return &FSpec{K: "not", Subs: []*FSpec{g.filter(depth-1, false)}, Tgt: -1}
	default:
		k := []string{"any", "noneof", "anynot"}[g.rng.Intn(3)]
		return &FSpec{K: k, Ids: g.subset(all, 2), Tgt: -1}
	}
}

// simpleFilter avoids relation filters nested in logic filters (they would lose their target semantics).
func (g *generator) topFilter(allowCached bool) *FSpec {
	for {
		f := g.filter(2, allowCached)
		if !hasNestedRel(f, true) {
			return f
		}
	}
}

func hasNestedRel(f *FSpec, top bool) bool {
	if f.K == "rel" && !top {
		return true
	}
	for _, s := range f.Subs {
		if hasNestedRel(s, false) {
			return true
		}
	}
	return false
}

// matching lists alive entity refs that match a filter right now, using the real filter on the real masks.
func (g *generator) matching(f *FSpec) (res []int) {
	defer func() {
		if recover() != nil {
			res = []int{}
		}
	}()
	rf, _ := g.x.buildFilter(f)
	res = []int{}
	for _, ref := range g.aliveRefs() {
		e := g.x.issued[ref]
		m := g.x.w.Mask(e)
		if !rf.Matches(&m) {
			continue
		}
		spec := f
		if spec.K == "cached" {
			spec = g.x.regSpec[spec.Reg]
		}
		if spec.K == "rel" {
			ids := g.x.maskIDs(&m)
			rel := g.relOf(ids)
			if rel < 0 {
				continue
			}
			if g.x.w.Relations().Get(e, g.x.idOf(rel)) != g.x.entity(spec.Tgt) {
				continue
			}
		}
		res = append(res, ref)
	}
	return res
}

func (g *generator) locked() bool { return g.x.w.IsLocked() }

func (g *generator) openQueries() []int {
	res := []int{}
	for i, q := range g.x.queries {
		if q.open {
			res = append(res, i)
		}
	}
	return res
}

func (g *generator) walk() []int {
	n := g.rng.Intn(5)
	res := []int{}
	for i := 0; i < n; i++ {
		switch {
		case g.pct(50):
			res = append(res, 0)
		case g.pct(80):
			res = append(res, 1+g.rng.Intn(3))
		default:
			res = append(res, -1)
			return res
		}
	}
	return res
}

// next draws the next operation.
// next draws the next operation; if the world is so corrupted that even choosing arguments panics,
// fall back to a plain query panel (the trace validation will report what the world shows).
func (g *generator) next() (op Op) {
	defer func() {
		if recover() != nil {
			op = Op{Op: "Panel", F: &FSpec{K: "all", Tgt: -1}}
		}
	}()
	return g.nextInner()
}

func (g *generator) nextInner() Op {
	if g.p.TrackPay && !g.locked() {
		if raw := ecs.VerifRawPtrCopies.Load(); raw > g.rawSeen {
			g.rawSeen = raw + 1<<40 // once per world is enough
			return Op{Op: "MoveStress", N: 4000}
		}
	}
	if len(g.plan) > 0 {
		op := g.plan[0]
		g.plan = g.plan[1:]
		return op
	}
	if g.p.Twin == "load" && g.p.MaxEnts >= 100 && !g.sparseDone && len(g.x.issued) == 0 && len(g.nons) >= 2 {
		// a large, sparse dump: two batches of entities, the first one removed again (ids 1..n free, the alive entities
		// have the high ids, more than one 64-bit word of ids), dump, load; then the loaded world is asked about its
		// highest ids first - before it has issued any fresh id
		g.sparseDone = true
		n := 30 + g.rng.Intn(g.p.MaxBatch-29)
		m := 70 - n + g.rng.Intn(20)
		if m > g.p.MaxBatch {
			m = g.p.MaxBatch
		}
		a, b := g.nons[0], g.nons[1]
		plan := []Op{
			{Op: "NewBatch", Api: "Builder.NewBatch", Ids: []int{a}, N: n, Tgt: -1},
			{Op: "NewBatch", Api: "Builder.NewBatch", Ids: []int{b}, N: m, Tgt: -1},
			{Op: "BatchRemove", F: &FSpec{K: "all", Ids: []int{a}, Tgt: -1}},
			{Op: "Dump"},
		}
		last := n + m - 1
		switch g.rng.Intn(3) {
		case 0:
			plan = append(plan, Op{Op: "RemoveEntity", E: last}, Op{Op: "NewEntity", Api: "World.NewEntity", Ids: []int{a}})
		case 1:
			plan = append(plan, Op{Op: "NewEntity", Api: "World.NewEntity", Ids: []int{a}}, Op{Op: "RemoveEntity", E: last - 1})
		default:
			// (single-entity operations only: a loaded world's entities have no components, filters select differently)
			plan = append(plan, Op{Op: "RemoveEntity", E: last - 2}, Op{Op: "RemoveEntity", E: last},
				Op{Op: "NewEntity", Api: "World.NewEntity", Ids: []int{}}, Op{Op: "NewEntity", Api: "World.NewEntity", Ids: []int{b}})
		}
		g.plan = plan[1:]
		return plan[0]
	}
	alive := g.aliveRefs()
	dead := g.deadRefs()
	faulty := g.pct(g.p.FaultPct)
	if !g.p.Generic && g.p.Twin == "" && !g.locked() && g.pct(g.p.RetargetPct) {
		plan := g.retargetPlan(alive)
		if g.pct(40) {
			plan = g.orphanPlan()
		} else if g.pct(35) {
			plan = g.mixedBatchPlan()
		} else if g.pct(35) {
			plan = g.staleTargetPlan()
		}
		if len(plan) > 0 {
			g.plan = plan[1:]
			return plan[0]
		}
	}
	weights := g.p.Weights
	if g.ss != nil && g.ss.b != nil && g.p.Twin == "load" && g.p.WeightsB != nil {
		weights = g.p.WeightsB
	}
	if g.focus && g.p.Twin != "load" {
		weights = focusWeights
	}
	kinds := []string{}
	for k := range weights {
		kinds = append(kinds, k)
	}
	sort.Strings(kinds)
	total := 0
	for _, k := range kinds {
		total += weights[k]
	}
	for tries := 0; tries < 50; tries++ {
		r := g.rng.Intn(total)
		kind := ""
		for _, k := range kinds {
			if r < weights[k] {
				kind = k
				break
			}
			r -= weights[k]
		}
		// While locked, structural operations are faults: keep their share small.
		if g.locked() && !faulty {
			switch kind {
			case "panel", "open", "qnext", "qclose", "set", "read", "res", "register", "unregister":
			default:
				if len(g.openQueries()) > 0 && g.pct(85) {
					kind = []string{"qnext", "qnext", "qclose", "set", "panel"}[g.rng.Intn(5)]
				}
			}
		}
		switch kind {
		case "create":
			if len(alive) >= g.p.MaxEnts && !g.pct(10) {
				continue
			}
			ids := g.compSet()
			if g.focus {
				// re-populate existing relation nodes, without explicit values
				if ms := g.relationNodeMasks(); len(ms) > 0 && g.pct(85) {
					ids = ms[g.rng.Intn(len(ms))]
				}
				rel := g.relOf(ids)
				op := Op{Op: "BuilderNew", Api: "Builder.New", Ids: ids, Rel: 0, Tgt: -1}
				if rel >= 0 {
					op.HasRel, op.Rel, op.HasTgt = true, rel, true
					op.Tgt = g.target(false)
				}
				return op
			}
			rel := g.relOf(ids)
			if faulty && g.pct(30) && len(ids) > 0 {
				ids = append(ids, ids[0]) // duplicate id
			} else if faulty && g.pct(40) && len(g.rels) > 1 && rel >= 0 {
				for _, r2 := range g.rels {
					if r2 != rel {
						ids = append(ids, r2) // second relation component
						break
					}
				}
			}
			switch g.rng.Intn(6) {
			case 0:
				return Op{Op: "NewEntity", Api: "World.NewEntity", Ids: ids}
			case 1:
				return Op{Op: "NewEntity", Api: "Builder.New", Ids: ids}
			case 2:
				api := "World.NewEntityWith"
				if g.pct(50) {
					api = "BuilderWith.New"
				}
				for _, c := range g.x.compNums {
					if _, static := ptrStaticByNum[c]; static && g.x.comps[c].kind == "ptr" && g.pct(40) && !faulty {
						return Op{Op: "NewEntityWith", Api: "NonEscaping", Ids: []int{c}, Vals: g.vals([]int{c})}
					}
				}
				return Op{Op: "NewEntityWith", Api: api, Ids: ids, Vals: g.vals(ids)}
			default:
				op := Op{Op: "BuilderNew", Api: "Builder.New", Ids: ids, Rel: -1, Tgt: -1}
				if g.pct(50) {
					op.Vals = g.vals(ids)
					op.WithV = true
				}
				if rel >= 0 {
					op.HasRel, op.Rel = true, rel
					if g.pct(85) {
						op.HasTgt = true
						op.Tgt = g.target(faulty && g.pct(50))
					}
				} else if faulty {
					// target without relation, or relation on a non-relation / missing component
					op.HasTgt = true
					op.Tgt = g.target(false)
					if g.pct(60) && len(g.nons) > 0 {
						op.HasRel, op.Rel = true, g.pick(g.nons)
					}
				}
				if op.Rel < 0 {
					op.Rel = 0
				}
				return op
			}
		case "batchcreate":
			if len(alive) >= g.p.MaxEnts && !g.pct(10) {
				continue
			}
			ids := g.compSet()
			rel := g.relOf(ids)
			op := Op{Op: "NewBatch", Api: "Builder.NewBatch", Ids: ids, N: 1 + g.rng.Intn(g.p.MaxBatch), Tgt: -1}
			if g.pct(50) {
				op.Vals = g.vals(ids)
				op.WithV = true
			}
			if rel >= 0 {
				op.HasRel, op.Rel = true, rel
				if g.pct(80) {
					op.HasTgt = true
					op.Tgt = g.target(faulty && g.pct(50))
				}
			}
			if faulty && g.pct(30) {
				op.N = -g.rng.Intn(2)
			} else if faulty && g.pct(40) {
				// a target for a builder that names no relation component
				op.HasRel, op.HasTgt = false, true
				op.Tgt = g.target(false)
			}
			if g.pct(40) {
				op.Q = true
				op.Api = "Builder.NewBatchQ"
				op.Walk = g.walk()
				if g.pct(g.p.HoldPct) {
					op.Hold = true
				}
			}
			return op
		case "remove":
			if faulty && len(dead) > 0 {
				return Op{Op: "RemoveEntity", E: g.pickDead(dead)}
			}
			if len(alive) == 0 {
				continue
			}
			if g.pct(25 + g.p.NewestPct) {
				// the entity issued last (often the highest id so far: the edge of every per-id structure)
				return Op{Op: "RemoveEntity", E: alive[len(alive)-1]}
			}
			return Op{Op: "RemoveEntity", E: g.pick(alive)}
		case "exchange", "assign":
			var ref int
			if faulty && len(dead) > 0 && g.pct(25) {
				ref = g.pickDead(dead)
				return Op{Op: "Exchange", Api: "World.Exchange", E: ref, Add: g.subset(g.nons, 1), Rem: []int{}, Tgt: -1}
			}
			if len(alive) == 0 {
				continue
			}
			ref = g.pick(alive)
			mask := g.maskOf(ref)
			absent := []int{}
			for _, c := range g.x.compNums {
				if !contains(mask, c) {
					absent = append(absent, c)
				}
			}
			rem := g.subset(mask, 2)
			// legal additions: at most one relation, and only if none remains
			relLeft := -1
			for _, c := range mask {
				if contains(g.rels, c) && !contains(rem, c) {
					relLeft = c
				}
			}
			add := []int{}
			for _, c := range g.subset(absent, 2) {
				if contains(g.rels, c) {
					if relLeft >= 0 {
						continue
					}
					relLeft = c
				}
				add = append(add, c)
			}
			if faulty {
				switch g.rng.Intn(5) {
				case 0:
					if len(mask) > 0 {
						add = append(add, g.pick(mask)) // add present
					}
				case 1:
					if len(absent) > 0 {
						rem = append(rem, g.pick(absent)) // remove absent
					}
				case 2:
					if len(add) > 0 {
						add = append(add, add[0]) // duplicate
					} else if len(rem) > 0 {
						rem = append(rem, rem[0])
					}
				case 3:
					if len(rem) > 0 {
						add = append(add, rem[0]) // same id in both
					}
				case 4:
					for _, r2 := range g.rels { // second relation
						if relLeft >= 0 && r2 != relLeft && !contains(mask, r2) {
							add = append(add, r2)
							break
						}
					}
				}
			}
			if kind == "assign" {
				if len(add) == 0 && !faulty {
					continue
				}
				op := Op{Op: "Assign", Api: "World.Assign", E: ref, Ids: add, Vals: g.vals(add), Tgt: -1}
				if len(add) == 1 && g.x.comps[add[0]] != nil && g.x.comps[add[0]].kind == "ptr" && g.pct(50) {
					if _, static := ptrStaticByNum[add[0]]; static {
						op.Api = "NonEscaping"
						return op
					}
				}
				if g.pct(40) {
					op.Api = "BuilderWith.Add"
					if r := g.relOf(add); r >= 0 && g.pct(80) {
						op.HasRel, op.Rel, op.HasTgt = true, r, true
						op.Tgt = g.target(faulty && g.pct(50))
					}
				}
				return op
			}
			op := Op{Op: "Exchange", Api: "World.Exchange", E: ref, Add: add, Rem: rem, Tgt: -1}
			newRel := relLeft
			switch {
			case len(rem) == 0 && g.pct(40):
				op.Api = "World.Add"
				if g.pct(50) {
					op.Api = "Builder.Add"
					if newRel >= 0 && g.pct(70) {
						op.HasRel, op.Rel, op.HasTgt = true, newRel, true
						op.Tgt = g.targetFor(ref, faulty && g.pct(50))
					} else if faulty && g.pct(50) {
						op.HasTgt = true // a target for a builder that names no relation component
						op.Tgt = g.target(false)
					}
				}
			case len(add) == 0 && g.pct(40):
				op.Api = "World.Remove"
			case newRel >= 0 && g.pct(50):
				op.Api = "Relations.Exchange"
				op.HasRel, op.Rel, op.HasTgt = true, newRel, true
				op.Tgt = g.targetFor(ref, faulty && g.pct(50))
			case faulty && g.pct(30):
				// relation call on a missing / non-relation component
				op.Api = "Relations.Exchange"
				op.HasRel, op.HasTgt = true, true
				op.Rel = g.pick(g.x.compNums)
				op.Tgt = g.target(false)
			}
			return op
		case "set":
			if len(alive) == 0 {
				continue
			}
			ref := g.pick(alive)
			mask := g.maskOf(ref)
			sized := []int{}
			for _, c := range mask {
				if g.x.comps[c] != nil && g.x.comps[c].sized {
					sized = append(sized, c)
				}
			}
			if faulty && g.pct(50) {
				absent := []int{}
				for _, c := range g.x.compNums {
					if !contains(mask, c) {
						absent = append(absent, c)
					}
				}
				if len(absent) > 0 {
					c := g.pick(absent)
					return Op{Op: "Set", Api: "World.Set", E: ref, C: c, V: g.vals([]int{c})[0]}
				}
			}
			if faulty && len(dead) > 0 {
				c := g.pick(g.x.compNums)
				return Op{Op: "Set", Api: "World.Set", E: g.pickDead(dead), C: c, V: 1}
			}
			if len(sized) == 0 {
				continue
			}
			c := g.pick(sized)
			api := "World.Set"
			if g.pct(50) {
				api = "Get"
			}
			if _, static := ptrStaticByNum[c]; static && g.x.comps[c].kind == "ptr" && g.pct(40) {
				api = "NonEscaping"
			}
			return Op{Op: "Set", Api: api, E: ref, C: c, V: g.vals([]int{c})[0]}
		case "setrel":
			if len(g.rels) == 0 {
				continue
			}
			if faulty {
				switch {
				case len(dead) > 0 && g.pct(30):
					return Op{Op: "SetRelation", E: g.pickDead(dead), Rel: g.pick(g.rels), Tgt: -1}
				case len(alive) > 0:
					ref := g.pick(alive)
					// wrong component (missing or not a relation), or dead target
					if g.pct(50) {
						return Op{Op: "SetRelation", E: ref, Rel: g.pick(g.x.compNums), Tgt: g.target(false)}
					}
					mask := g.maskOf(ref)
					if r := g.relOf(mask); r >= 0 {
						return Op{Op: "SetRelation", E: ref, Rel: r, Tgt: g.target(true)}
					}
				}
				continue
			}
			cands := []int{}
			for _, ref := range alive {
				if g.relOf(g.maskOf(ref)) >= 0 {
					cands = append(cands, ref)
				}
			}
			if len(cands) == 0 {
				continue
			}
			ref := g.pick(cands)
			t := g.targetFor(ref, false)
			if g.pct(10) {
				t = ref // self target
			}
			return Op{Op: "SetRelation", E: ref, Rel: g.relOf(g.maskOf(ref)), Tgt: t}
		case "batchex":
			f := g.topFilter(true)
			match := g.matching(f)
			// arguments legal for every matching entity
			var common, union []int
			for i, ref := range match {
				m := g.maskOf(ref)
				if i == 0 {
					common = append([]int{}, m...)
				} else {
					nc := []int{}
					for _, c := range common {
						if contains(m, c) {
							nc = append(nc, c)
						}
					}
					common = nc
				}
				for _, c := range m {
					if !contains(union, c) {
						union = append(union, c)
					}
				}
			}
			if len(match) == 0 {
				common = g.subset(g.x.compNums, 1)
			}
			rem := g.subset(common, 1)
			absentAll := []int{}
			for _, c := range g.x.compNums {
				if !contains(union, c) {
					absentAll = append(absentAll, c)
				}
			}
			anyRelLeft := false
			for _, c := range union {
				if contains(g.rels, c) && !contains(rem, c) {
					anyRelLeft = true
				}
			}
			add := []int{}
			newRel := -1
			for _, c := range g.subset(absentAll, 2) {
				if contains(g.rels, c) {
					if anyRelLeft || newRel >= 0 {
						continue
					}
					newRel = c
				}
				add = append(add, c)
			}
			if faulty && g.pct(50) && len(union) > 0 {
				add = append(add, g.pick(union))
			}
			if len(add) == 0 && len(rem) == 0 && !g.pct(10) {
				continue
			}
			op := Op{Op: "BatchExchange", Api: "Batch.Exchange", F: f, Add: add, Rem: rem, Tgt: -1}
			keptRel := -1
			for _, c := range common {
				if contains(g.rels, c) && !contains(rem, c) && len(match) > 0 {
					keptRel = c
				}
			}
			switch {
			case keptRel >= 0 && newRel < 0 && g.pct(45):
				// re-target the relation every matching entity keeps (zero, alive, recycled or - if faulty - dead target)
				op.Api = "Relations.ExchangeBatch"
				op.HasRel, op.Rel = true, keptRel
				op.Tgt = g.target(faulty && g.pct(50))
				if !faulty && g.pct(50) {
					// the target some of the matching entities already have: their table changes components only,
					// the tables of the others also change target - the event type bits differ within one batch
					if t := g.currentTargetRef(g.pick(match), keptRel); t >= -1 {
						op.Tgt = t
					}
				} else if !faulty && g.pct(50) {
					op.Tgt = -1 // the explicit zero target: every matching entity is reset, none keeps its target
				}
			case len(rem) == 0 && g.pct(50):
				op.Api = "Batch.Add"
			case len(add) == 0 && g.pct(50):
				op.Api = "Batch.Remove"
			case newRel >= 0 && g.pct(70):
				op.Api = "Relations.ExchangeBatch"
				op.HasRel, op.Rel = true, newRel
				op.Tgt = g.target(faulty && g.pct(50))
			}
			if g.pct(40) {
				op.Q = true
				op.Api += "Q"
				op.Walk = g.walk()
				if g.pct(g.p.HoldPct) {
					op.Hold = true
				}
			}
			return op
		case "batchsetrel":
			if len(g.rels) == 0 {
				continue
			}
			rel := g.pick(g.rels)
			var f *FSpec
			if g.pct(50) {
				f = &FSpec{K: "all", Ids: []int{rel}, Tgt: -1}
			} else {
				ft := g.target(false)
				if rd := g.retainedDead(); len(rd) > 0 && g.pct(40) {
					ft = g.pick(rd)
				}
				f = &FSpec{K: "rel", Subs: []*FSpec{{K: "all", Ids: []int{rel}, Tgt: -1}}, Tgt: ft}
			}
			if g.pct(25) {
				live := []int{}
				for i, l := range g.x.regLive {
					if l {
						live = append(live, i)
					}
				}
				if len(live) > 0 {
					cf := &FSpec{K: "cached", Reg: g.pick(live), Tgt: -1}
					ok := true
					for _, ref := range g.matching(cf) {
						if !contains(g.maskOf(ref), rel) {
							ok = false
						}
					}
					if ok || faulty {
						f = cf
					}
				}
			}
			op := Op{Op: "BatchSetRelation", Api: "Batch.SetRelation", F: f, Rel: rel, Tgt: g.target(faulty && g.pct(60))}
			if g.pct(50) {
				op.Api = "Relations.SetBatch"
			}
			if g.pct(40) {
				op.Q = true
				op.Api += "Q"
				op.Walk = g.walk()
				if g.pct(g.p.HoldPct) {
					op.Hold = true
				}
			}
			return op
		case "batchremove":
			return Op{Op: "BatchRemove", F: g.topFilter(true)}
		case "panel":
			return Op{Op: "Panel", F: g.topFilter(true), Walk: g.walk()}
		case "open":
			if len(g.openQueries()) >= g.p.MaxOpen {
				continue
			}
			return Op{Op: "OpenQuery", F: g.topFilter(true)}
		case "qnext":
			oq := g.openQueries()
			if len(oq) == 0 {
				continue
			}
			if g.pct(25) {
				return Op{Op: "QStep", Qi: g.pick(oq), N: 1 + g.rng.Intn(3)}
			}
			if g.pct(10) {
				return Op{Op: "QCount", Qi: g.pick(oq)}
			}
			return Op{Op: "QNext", Qi: g.pick(oq)}
		case "qclose":
			oq := g.openQueries()
			if len(oq) == 0 {
				continue
			}
			return Op{Op: "QClose", Qi: g.pick(oq)}
		case "register":
			live := 0
			for _, l := range g.x.regLive {
				if l {
					live++
				}
			}
			if faulty && live > 0 {
				for i, l := range g.x.regLive {
					if l {
						return Op{Op: "Register", F: &FSpec{K: "cached", Reg: i, Tgt: -1}}
					}
				}
			}
			if live >= g.p.MaxRegs {
				continue
			}
			return Op{Op: "Register", F: g.topFilter(false)}
		case "unregister":
			live := []int{}
			deadRegs := []int{}
			for i, l := range g.x.regLive {
				if l {
					live = append(live, i)
				} else {
					deadRegs = append(deadRegs, i)
				}
			}
			if faulty && len(deadRegs) > 0 {
				return Op{Op: "Unregister", Reg: g.pick(deadRegs)}
			}
			if len(live) == 0 {
				continue
			}
			return Op{Op: "Unregister", Reg: g.pick(live)}
		case "reset":
			return Op{Op: "Reset"}
		case "gdeck":
			// systematic cover of the generated generic code: every (method, arity, with/without target) card of a shuffled
			// deck is played in turn; a card that needs an entity of a certain shape first gets one made (and stays on top)
			if op, ok := g.playCard(alive); ok {
				return op
			}
			continue
		case "gcreate":
			if len(alive) >= g.p.MaxEnts && !g.pct(10) {
				continue
			}
			ar := 1 + g.rng.Intn(12)
			if g.pct(60) {
				ar = 1 + g.rng.Intn(4)
			}
			op := Op{Op: "BuilderNew", Api: "generic.Map.New", Ar: ar, Tgt: -1}
			hasRelComp := ar >= 3
			if g.pct(35) {
				op.Api = "generic.Map.NewWith"
				op.WithV = true
				op.Vals = g.vals(seqIDs(ar))
			}
			if g.pct(25) {
				// Exchange.NewEntity with arbitrary components
				ids := g.compSet()
				op = Op{Op: "BuilderNew", Api: "generic.Exchange.NewEntity", Ids: ids, Tgt: -1}
				if r := g.relOf(ids); r >= 0 && g.pct(80) {
					op.HasRel, op.Rel, op.HasTgt = true, r, true
					op.Tgt = g.target(faulty)
				} else if faulty {
					op.HasTgt = true
				}
				return op
			}
			if g.pct(20) {
				op.Op, op.Api, op.N = "NewBatch", "generic.Map.NewBatch", 1+g.rng.Intn(g.p.MaxBatch)
				op.Vals, op.WithV = nil, false
				if g.pct(50) {
					op.Q, op.Api, op.Walk = true, "generic.Map.NewBatchQ", g.walk()
					if g.pct(g.p.HoldPct) {
						op.Hold = true
					}
				}
			}
			if hasRelComp && g.pct(70) {
				op.HasRel, op.Rel = true, 2
				if g.pct(85) {
					op.HasTgt = true
					op.Tgt = g.target(faulty && g.pct(50))
				}
			} else if faulty {
				op.HasTgt = true // target without relation
				op.Tgt = g.target(false)
			}
			return op
		case "gexchange":
			if len(alive) == 0 {
				continue
			}
			ref := g.pick(alive)
			mask := g.maskOf(ref)
			lead := 0 // number of leading ids (0,1,2,...) all absent / all present
			for lead < 12 && !contains(mask, lead) {
				lead++
			}
			run := 0
			for run < 12 && contains(mask, run) {
				run++
			}
			hasRel := g.relOf(mask) >= 0
			switch {
			case lead >= 1 && g.pct(40):
				ar := 1 + g.rng.Intn(lead)
				if ar >= 3 && hasRel && !faulty {
					ar = 2
				}
				op := Op{Op: "Exchange", Api: "generic.Map.Add", E: ref, Ar: ar, Tgt: -1}
				if ar >= 3 && g.pct(70) {
					op.HasRel, op.Rel, op.HasTgt = true, 2, true
					op.Tgt = g.targetFor(ref, faulty)
				}
				if g.pct(30) {
					op.Op, op.Api, op.Vals = "Assign", "generic.Map.Assign", g.vals(seqIDs(ar))
					op.HasRel, op.HasTgt = false, false
				}
				return op
			case run >= 1 && g.pct(50):
				ar := 1 + g.rng.Intn(run)
				op := Op{Op: "Exchange", Api: "generic.Map.Remove", E: ref, Ar: ar, Tgt: -1}
				if contains(mask, 12) && g.pct(50) {
					// keep relation 12 and retarget it while removing
					op.HasRel, op.Rel, op.HasTgt = true, 12, true
					op.Tgt = g.targetFor(ref, faulty)
				}
				return op
			default:
				absent := []int{}
				for _, c := range g.x.compNums {
					if !contains(mask, c) {
						absent = append(absent, c)
					}
				}
				rem := g.subset(mask, 2)
				relLeft := -1
				for _, c := range mask {
					if contains(g.rels, c) && !contains(rem, c) {
						relLeft = c
					}
				}
				add := []int{}
				for _, c := range g.subset(absent, 2) {
					if contains(g.rels, c) {
						if relLeft >= 0 {
							continue
						}
						relLeft = c
					}
					add = append(add, c)
				}
				if faulty && len(mask) > 0 {
					add = append(add, g.pick(mask))
				}
				api := "generic.Exchange.Exchange"
				if len(rem) == 0 && g.pct(50) {
					api = "generic.Exchange.Add"
				} else if len(add) == 0 && g.pct(50) {
					api = "generic.Exchange.Remove"
				}
				if api == "generic.Exchange.Add" {
					rem = nil
				}
				if api == "generic.Exchange.Remove" {
					add = nil
				}
				op := Op{Op: "Exchange", Api: api, E: ref, Add: add, Rem: rem, Tgt: -1}
				if relLeft >= 0 && g.pct(50) {
					op.HasRel, op.Rel, op.HasTgt = true, relLeft, true
					op.Tgt = g.targetFor(ref, faulty)
				}
				return op
			}
		case "gset":
			if len(alive) == 0 {
				continue
			}
			ref := g.pick(alive)
			mask := g.maskOf(ref)
			if len(mask) == 0 {
				continue
			}
			c := g.pick(mask)
			if faulty {
				c = g.pick(g.x.compNums)
			}
			return Op{Op: "Set", Api: "generic.Map1.Set", E: ref, C: c, V: g.vals([]int{c})[0]}
		case "gsetrel":
			cands := []int{}
			for _, ref := range alive {
				if g.relOf(g.maskOf(ref)) >= 0 {
					cands = append(cands, ref)
				}
			}
			if len(cands) == 0 {
				continue
			}
			ref := g.pick(cands)
			rel := g.relOf(g.maskOf(ref))
			if faulty {
				rel = g.pick(g.x.compNums)
			}
			if g.pct(30) {
				f := &FSpec{K: "all", Ids: []int{rel}, Tgt: -1}
				op := Op{Op: "BatchSetRelation", Api: "generic.Map1.SetRelationBatch", F: f, Rel: rel, Tgt: g.target(faulty)}
				if g.pct(50) {
					op.Q, op.Api, op.Walk = true, "generic.Map1.SetRelationBatchQ", g.walk()
				}
				return op
			}
			return Op{Op: "SetRelation", Api: "generic.Map1.SetRelation", E: ref, Rel: rel, Tgt: g.target(faulty)}
		case "gread":
			if len(alive) == 0 {
				continue
			}
			ref := g.pick(alive)
			if len(dead) > 0 && faulty {
				ref = g.pickDead(dead)
			}
			switch g.rng.Intn(4) {
			case 0:
				return Op{Op: "Read", Api: "generic.Map.Get", E: ref, Ar: 1 + g.rng.Intn(12)}
			case 1:
				return Op{Op: "Read", Api: "generic.Map1.Has", E: ref, C: g.pick(g.x.compNums)}
			case 2:
				return Op{Op: "Read", Api: "generic.Map1.GetRelation", E: ref, C: g.pick(g.x.compNums)}
			default:
				return Op{Op: "Read", Api: "generic.Map1.Get", E: ref, C: g.pick(g.x.compNums)}
			}
		case "gbatch":
			f := g.topFilter(true)
			match := g.matching(f)
			var common, union []int
			for i, ref := range match {
				m := g.maskOf(ref)
				if i == 0 {
					common = append([]int{}, m...)
				} else {
					nc := []int{}
					for _, c := range common {
						if contains(m, c) {
							nc = append(nc, c)
						}
					}
					common = nc
				}
				for _, c := range m {
					if !contains(union, c) {
						union = append(union, c)
					}
				}
			}
			lead := 0
			for lead < 12 && !contains(union, lead) {
				lead++
			}
			run := 0
			for run < 12 && contains(common, run) {
				run++
			}
			anyRel := false
			for _, c := range union {
				anyRel = anyRel || contains(g.rels, c)
			}
			var op Op
			switch {
			case lead >= 1 && g.pct(50):
				ar := 1 + g.rng.Intn(lead)
				if ar >= 3 && anyRel && !faulty {
					ar = 2
				}
				op = Op{Op: "BatchExchange", Api: "generic.Map.AddBatch", F: f, Ar: ar, Tgt: -1}
				if ar >= 3 && g.pct(60) {
					op.HasRel, op.Rel, op.HasTgt = true, 2, true
					op.Tgt = g.target(faulty)
				}
			case run >= 1 && len(match) > 0 && g.pct(60):
				op = Op{Op: "BatchExchange", Api: "generic.Map.RemoveBatch", F: f, Ar: 1 + g.rng.Intn(run), Tgt: -1}
			case g.pct(50):
				ar := 1 + g.rng.Intn(3)
				return Op{Op: "BatchRemove", Api: "generic.Map.RemoveEntities", Ar: ar, Q: g.pct(50)}
			default:
				rem := g.subset(common, 1)
				absentAll := []int{}
				for _, c := range g.x.compNums {
					if !contains(union, c) && !contains(g.rels, c) {
						absentAll = append(absentAll, c)
					}
				}
				add := g.subset(absentAll, 2)
				if len(add) == 0 && len(rem) == 0 {
					continue
				}
				xop := Op{Op: "BatchExchange", Api: "generic.Exchange.ExchangeBatch", F: f, Add: add, Rem: rem, Tgt: -1}
				if g.pct(40) {
					for _, c := range common {
						if contains(g.rels, c) && !contains(rem, c) {
							xop.HasRel, xop.Rel = true, c // configured, but no target given: every entity keeps its target
						}
					}
				}
				return xop
			}
			if g.pct(40) {
				op.Q = true
				op.Api += "Q"
				op.Walk = g.walk()
			}
			return op
		case "gfilter":
			// life cycle of one filter object, step by step (other operations interleave): relation with a fixed or a
			// per-query target, query, register, query, unregister, query, register again, query
			if len(g.gplan) > 0 {
				op := g.gplan[0]
				g.gplan = g.gplan[1:]
				if op.Op == "GQuery" && op.HasTgt {
					op.Tgt = g.target(false)
				}
				return op
			}
			if g.pct(7) && !g.locked() {
				// children of a parent, then a generic batch exchange whose Exchange / Map is configured WITH the relation
				// but is called without a target: every child keeps its parent (plain Batch.Exchange semantics)
				p := len(g.x.issued)
				extra := []int{5, 6, 7, 8}[g.rng.Intn(4)]
				child := Op{Op: "BuilderNew", Api: "generic.Map.New", Ar: 3, HasRel: true, Rel: 2, HasTgt: true, Tgt: p}
				f := &FSpec{K: "all", Ids: []int{2}, Tgt: -1}
				last := Op{Op: "BatchExchange", Api: "generic.Exchange.ExchangeBatch", F: f, Add: []int{extra}, Rem: []int{}, HasRel: true, Rel: 2, Tgt: -1}
				if g.pct(40) {
					last = Op{Op: "BatchExchange", Api: "generic.Exchange.ExchangeBatch", F: f, Add: []int{}, Rem: []int{0}, HasRel: true, Rel: 2, Tgt: -1}
				}
				g.plan = []Op{child, child, last, {Op: "Panel", F: &FSpec{K: "rel", Subs: []*FSpec{{K: "all", Ids: []int{2}, Tgt: -1}}, Tgt: p}, Walk: g.walk()}}
				return Op{Op: "NewEntity", Api: "World.NewEntity", Ids: []int{}}
			}
			if g.pct(15) && !g.locked() {
				// map family B (types 0, 1, 3 .. 11, 13; relation 2 or 12 NOT owned by the map): Remove / RemoveBatch / Add with a target are
				// accepted calls here - a new target, the explicit zero target ("reset", not "keep") or, with the relation
				// configured but no target given, the plain operation that keeps the target. Cycles through (arity, variant).
				if mapBSeq < 0 {
					mapBSeq = int(genSeed%16) * 3 // the processes of one run start at different offsets of the 48 combinations
				}
				ar, variant := 1+mapBSeq%12, (mapBSeq/12)%4
				mapBSeq++
				rel := []int{12, 2}[g.rng.Intn(2)]
				p := len(g.x.issued)
				own := shiftIDs(ar)
				with := append(append([]int{}, own...), rel)
				child := Op{Op: "BuilderNew", Api: "Builder.New", Ids: with, HasRel: true, Rel: rel, HasTgt: true, Tgt: p}
				act := Op{Op: "Exchange", Api: "generic.MapB.Remove", E: p + 2, Ar: ar, HasRel: true, Rel: rel, HasTgt: true, Tgt: p + 1}
				switch variant {
				case 1:
					act.Tgt = -1 // explicit zero target
				case 2:
					act.HasTgt, act.Tgt = false, -1 // relation configured, no target: plain removal, the target stays
				case 3:
					act = Op{Op: "BatchExchange", Api: "generic.MapB.RemoveBatch", F: &FSpec{K: "all", Ids: []int{rel, own[0]}, Tgt: -1}, Ar: ar,
						HasRel: true, Rel: rel, HasTgt: true, Tgt: []int{p + 1, -1}[g.rng.Intn(2)]}
				}
				if g.pct(25) {
					// the same through Add: the child starts with the relation only
					child.Ids = []int{rel}
					act.Api = "generic.MapB.Add"
					if variant == 3 {
						act = Op{Op: "Exchange", Api: "generic.MapB.Add", E: p + 3, Ar: ar, HasRel: true, Rel: rel, HasTgt: true, Tgt: -1}
					}
				}
				look := func(t int) Op {
					return Op{Op: "Panel", F: &FSpec{K: "rel", Subs: []*FSpec{{K: "all", Ids: []int{rel}, Tgt: -1}}, Tgt: t}, Walk: g.walk()}
				}
				g.plan = []Op{{Op: "NewEntity", Api: "World.NewEntity", Ids: []int{}}, child, child, act, look(p), look(p + 1)}
				return Op{Op: "NewEntity", Api: "World.NewEntity", Ids: []int{}}
			}
			if len(g.x.gfs) < 12 && g.pct(32) && !g.locked() {
				// deck over (arity, builder method): a filter object is used once (which compiles it), then re-configured
				// by one builder call, then used again - the re-configuration must take effect, for every arity
				if filterDeckPos >= len(filterDeck) {
					filterDeck = filterDeck[:0]
					for ar := 0; ar <= 12; ar++ {
						for _, m := range []string{"Exclusive", "With", "With2", "Without", "Without2", "WithoutLate", "Optional", "WithRelation", "Register"} {
							if (m == "Without2" || m == "With2") && ar > 10 {
								continue
							}
							if m == "WithoutLate" && ar == 0 {
								continue
							}
							if (m == "Optional" && ar == 0) || (m == "WithRelation" && ar < 3) {
								continue
							}
							filterDeck = append(filterDeck, deckCard{m, ar, false})
						}
					}
					// a fixed shuffle; the processes of one run start at different offsets, so that together they play the
					// whole deck even if each of them only gets through a part of it
					rand.New(rand.NewSource(7)).Shuffle(len(filterDeck), func(i, j int) { filterDeck[i], filterDeck[j] = filterDeck[j], filterDeck[i] })
					filterDeckPos = 0
					if !filterDeckStarted {
						filterDeckStarted = true
						filterDeckPos = int(genSeed%16) * len(filterDeck) / 16
					}
				}
				c := filterDeck[filterDeckPos]
				filterDeckPos++
				gi := len(g.x.gfs)
				q := Op{Op: "GQuery", Api: "generic.Filter.Query", Qi: gi, Walk: g.walk(), Tgt: -1}
				b := Op{Op: "GBuild", Api: "generic.Filter." + c.api, Qi: gi, Tgt: -1}
				switch c.api {
				case "With", "Without":
					b.Ids = g.subset(g.x.compNums, 1)
				case "Optional":
					// the last type parameter becomes optional: the entity created below without it must then be selected.
					// The argument list may name a type the filter does not have first, or a type twice - neither may keep
					// the arguments after it from taking effect
					own := c.ar - 1
					switch g.rng.Intn(4) {
					case 0:
						b.Ids = []int{c.ar, own} // c.ar: not a type parameter of this filter
					case 1:
						b.Ids = []int{own}
						if c.ar >= 2 {
							b.Ids = []int{c.ar - 2, c.ar - 2, own}
						}
					case 2:
						b.Ids = []int{own}
					default:
						b.Ids = g.subset(seqIDs(c.ar), 2)
					}
				case "WithRelation":
					b.Ids = []int{2}
					if g.pct(50) {
						b.HasTgt, b.Tgt = true, g.target(false)
					}
				}
				// entities the re-configuration can tell apart: one with exactly the filter's components, one with one more
				plan := []Op{}
				if c.ar >= 1 {
					plan = append(plan, Op{Op: "BuilderNew", Api: "generic.Map.New", Ar: c.ar, Tgt: -1})
					if c.ar < 12 {
						plan = append(plan, Op{Op: "BuilderNew", Api: "generic.Map.New", Ar: c.ar + 1, Tgt: -1})
					}
				}
				if c.api == "Optional" {
					// the entity an optional last parameter lets in
					if c.ar >= 2 {
						plan = append(plan, Op{Op: "BuilderNew", Api: "generic.Map.New", Ar: c.ar - 1, Tgt: -1})
					} else {
						plan = append(plan, Op{Op: "NewEntity", Api: "World.NewEntity", Ids: []int{}})
					}
				}
				if c.api == "With2" {
					// two With calls, one after the other use: the second one must add to the first one's components, not
					// replace them - the entity that only has the second component stays out
					x, y := c.ar, c.ar+1
					e1 := Op{Op: "NewEntity", Api: "World.NewEntity", Ids: append(seqIDs(c.ar), y)}
					e2 := Op{Op: "BuilderNew", Api: "generic.Map.New", Ar: c.ar + 2, Tgt: -1}
					b1 := Op{Op: "GBuild", Api: "generic.Filter.With", Qi: gi, Ids: []int{x}, Tgt: -1}
					b2 := Op{Op: "GBuild", Api: "generic.Filter.With", Qi: gi, Ids: []int{y}, Tgt: -1}
					if g.pct(50) {
						g.plan = []Op{e1, e2, b1, q, b2, q}
					} else {
						g.plan = []Op{e1, e2, b1, b2, q}
					}
					return Op{Op: "GNewFilter", Api: "generic.NewFilter", Ar: c.ar}
				}
				if c.api == "WithoutLate" {
					// the filter excludes a component type the world has not registered yet, is used (compiled), then the
					// type is registered by giving it to one of the two matching entities: that entity must drop out
					if g.x.lateDone {
						continue
					}
					a := len(g.x.issued)
					mk := Op{Op: "BuilderNew", Api: "generic.Map.New", Ar: c.ar, Tgt: -1}
					b1 := Op{Op: "GBuild", Api: "generic.Filter.Without", Qi: gi, Ids: []int{lateComp}, Tgt: -1}
					plan := []Op{mk, mk, b1, q}
					if g.pct(50) {
						plan = append(plan, Op{Op: "GBuild", Api: "generic.Filter.Register", Qi: gi, Tgt: -1}, q)
					}
					plan = append(plan, Op{Op: "Exchange", Api: "World.Add", E: a + 1, Add: []int{lateComp}, Rem: []int{}, Tgt: -1}, q)
					g.plan = plan
					return Op{Op: "GNewFilter", Api: "generic.NewFilter", Ar: c.ar}
				}
				if c.api == "Without2" {
					// two Without calls whose argument lists overlap: the second one names a component again and adds the
					// one that tells the two entities apart
					b1 := Op{Op: "GBuild", Api: "generic.Filter.Without", Qi: gi, Ids: []int{c.ar + 1}, Tgt: -1}
					b2 := Op{Op: "GBuild", Api: "generic.Filter.Without", Qi: gi, Ids: []int{c.ar + 1, c.ar}, Tgt: -1}
					plan = append(plan, q, b1, q, b2, q)
					g.plan = plan
					return Op{Op: "GNewFilter", Api: "generic.NewFilter", Ar: c.ar}
				}
				plan = append(plan, q, b, q)
				if c.api == "Register" {
					plan = append(plan, Op{Op: "GBuild", Api: "generic.Filter.Unregister", Qi: gi, Tgt: -1}, q)
				}
				g.plan = plan // played back to back: nothing else may change the entities in between
				return Op{Op: "GNewFilter", Api: "generic.NewFilter", Ar: c.ar}
			}
			if len(g.x.gfs) < 6 && g.pct(12) {
				gi := len(g.x.gfs)
				ar := 3 + g.rng.Intn(4)
				fixed := g.pct(65)
				q := Op{Op: "GQuery", Api: "generic.Filter.Query", Qi: gi, Walk: g.walk(), Tgt: -1, HasTgt: !fixed}
				wr := Op{Op: "GBuild", Api: "generic.Filter.WithRelation", Qi: gi, Ids: []int{2}, Tgt: -1}
				if fixed {
					wr.HasTgt, wr.Tgt = true, g.target(false)
				}
				plan := []Op{wr}
				if g.pct(30) {
					plan = append(plan, Op{Op: "GBuild", Api: "generic.Filter.Without", Qi: gi, Ids: g.subset(g.nons, 1), Tgt: -1})
				}
				reg := Op{Op: "GBuild", Api: "generic.Filter.Register", Qi: gi, Tgt: -1}
				unreg := Op{Op: "GBuild", Api: "generic.Filter.Unregister", Qi: gi, Tgt: -1}
				// q0: no per-call target - after a query WITH one, and again after Register + Unregister, it must select the
				// entities of every target (the per-call target of an earlier query must not stick to the filter)
				q0 := q
				q0.HasTgt = false
				plan = append(plan, q, reg, q, unreg, q0, q)
				if g.pct(50) {
					plan = append(plan, reg, q0, unreg, q0)
				}
				g.gplan = plan
				return Op{Op: "GNewFilter", Api: "generic.NewFilter", Ar: ar}
			}
			if len(g.x.gfs) == 0 || (len(g.x.gfs) < 4 && g.pct(15)) {
				ar := g.rng.Intn(13)
				if g.pct(50) {
					ar = g.rng.Intn(4)
				}
				return Op{Op: "GNewFilter", Api: "generic.NewFilter", Ar: ar}
			}
			gi := g.rng.Intn(len(g.x.gfs))
			ar := g.x.gfs[gi].ar
			r := g.rng.Intn(100)
			switch {
			case r < 45:
				op := Op{Op: "GQuery", Api: "generic.Filter.Query", Qi: gi, Walk: g.walk(), Tgt: -1}
				if g.pct(25) && (g.x.gfs[gi].hasRel || faulty) {
					op.HasTgt = true
					op.Tgt = g.target(false)
				}
				return op
			case r < 55 && ar > 0:
				return Op{Op: "GBuild", Api: "generic.Filter.Optional", Qi: gi, Ids: g.subset(seqIDs(ar), 2), Tgt: -1}
			case r < 65:
				return Op{Op: "GBuild", Api: "generic.Filter.With", Qi: gi, Ids: g.subset(g.x.compNums, 1), Tgt: -1}
			case r < 73:
				return Op{Op: "GBuild", Api: "generic.Filter.Without", Qi: gi, Ids: g.subset(g.x.compNums, 1), Tgt: -1}
			case r < 80:
				return Op{Op: "GBuild", Api: "generic.Filter.Exclusive", Qi: gi, Tgt: -1}
			case r < 88:
				rel := g.pick(g.rels)
				op := Op{Op: "GBuild", Api: "generic.Filter.WithRelation", Qi: gi, Ids: []int{rel}, Tgt: -1}
				if g.pct(50) {
					op.HasTgt = true
					op.Tgt = g.target(false)
				}
				return op
			case r < 95:
				return Op{Op: "GBuild", Api: "generic.Filter.Register", Qi: gi, Tgt: -1}
			default:
				return Op{Op: "GBuild", Api: "generic.Filter.Unregister", Qi: gi, Tgt: -1}
			}
		case "addlistener":
			if g.x.disp == nil || len(g.x.subs) >= 6 {
				continue
			}
			l := &LSpec{S: g.rng.Intn(64)}
			if g.pct(50) {
				l.HasC = true
				l.C = g.subset(g.x.compNums, 2)
				if len(l.C) == 0 {
					l.C = []int{g.pick(g.x.compNums)}
				}
			}
			return Op{Op: "AddListener", L: l}
		case "gccheck":
			return Op{Op: "GCCheck"}
		case "regtypes":
			if len(ecs.ComponentIDs(g.x.w)) > 40 {
				continue
			}
			return Op{Op: "RegisterTypes", N: 1 + g.rng.Intn(6)}
		case "dump":
			return Op{Op: "Dump"}
		case "load":
			return Op{Op: "Load"}
		case "read":
			apis := []string{"Get", "Has", "Mask", "Ids", "Relations.Get", "Alive"}
			api := apis[g.rng.Intn(len(apis))]
			var ref int
			if len(dead) > 0 && (faulty || g.pct(50)) {
				ref = g.pickDead(dead)
			} else if len(alive) > 0 {
				ref = g.pick(alive)
			} else {
				continue
			}
			c := g.pick(g.x.compNums)
			return Op{Op: "Read", Api: api, E: ref, C: c}
		case "res":
			if g.p.NRes == 0 {
				continue
			}
			if g.x.lazyRes == 0 && g.p.NRes+6 <= ecs.MaskTotalBits && g.pct(8) {
				// the resource of the most recently registered type is removed, THEN a type the world has never seen is looked
				// up: removing a resource must not give its type's id away - the two types stay independent
				last := g.p.NRes - 1
				plan := []Op{}
				first := Op{Op: "ResRemove", Api: []string{"Resources.Remove", "generic.Resource.Remove"}[g.rng.Intn(2)], R: last}
				if !g.x.w.Resources().Has(g.x.resIDs[last]) {
					plan = append(plan, first)
					first = Op{Op: "ResAdd", Api: "Resources.Add", R: last}
				}
				plan = append(plan,
					Op{Op: "ResLazy", Api: []string{"ecs.GetResource", "ecs.ResourceID", "generic.NewResource"}[g.rng.Intn(3)], R: 0},
					Op{Op: "ResGet", Api: "Resources.Has", R: last},
					Op{Op: "ResAdd", Api: []string{"Resources.Add", "generic.Resource.Add", "ecs.AddResource"}[g.rng.Intn(3)], R: last},
					Op{Op: "ResGet", Api: []string{"Resources.Get", "generic.Resource.Get", "ecs.GetResource"}[g.rng.Intn(3)], R: last})
				g.plan = plan
				return first
			}
			if g.x.lazyRes < 6 && g.p.NRes+6 <= ecs.MaskTotalBits && g.pct(10) {
				// a resource type this world has never seen, looked up by type - whatever the lock state
				return Op{Op: "ResLazy", Api: []string{"ecs.GetResource", "ecs.ResourceID", "generic.NewResource"}[g.rng.Intn(3)], R: g.x.lazyRes}
			}
			r := g.rng.Intn(g.p.NRes)
			has := g.x.w.Resources().Has(g.x.resIDs[r])
			if g.pct(40) {
				apis := []string{"Resources.Get", "generic.Resource.Get", "ecs.GetResource", "Resources.Has", "generic.Resource.Has"}
				return Op{Op: "ResGet", Api: apis[g.rng.Intn(len(apis))], R: r}
			}
			if (has && !faulty) || (!has && faulty) {
				api := "Resources.Remove"
				if g.pct(50) {
					api = "generic.Resource.Remove"
				}
				return Op{Op: "ResRemove", Api: api, R: r}
			}
			apis := []string{"Resources.Add", "generic.Resource.Add", "ecs.AddResource"}
			return Op{Op: "ResAdd", Api: apis[g.rng.Intn(len(apis))], R: r}
		}
	}
	return Op{Op: "Panel", F: &FSpec{K: "all", Tgt: -1}}
}

// markClosed updates the open-query bookkeeping after an operation (generation bias only).
func (g *generator) markClosed(op Op, line map[string]interface{}) {
	res := line["res"].(map[string]interface{})
	if res["panic"].(bool) {
		return
	}
	switch op.Op {
	case "QNext", "QStep":
		if res["ret"].(int) == 0 {
			g.x.queries[op.Qi].open = false
		}
	case "QClose":
		g.x.queries[op.Qi].open = false
	case "Reset":
		for _, q := range g.x.queries {
			q.open = false
		}
	}
}

func defaultWeights() map[string]int {
	return map[string]int{
		"create": 14, "batchcreate": 5, "remove": 9, "exchange": 14, "assign": 5, "set": 8, "setrel": 8,
		"batchex": 6, "batchsetrel": 4, "batchremove": 2, "panel": 8, "open": 3, "qnext": 4, "qclose": 2,
		"register": 4, "unregister": 1, "reset": 1, "read": 3, "res": 3,
	}
}

// deckCard is one cell of the generic API table: method x arity x target variant.
type deckCard struct {
	api string
	ar  int
	tgt bool
}

var (
	deck    []deckCard
	deckPos int
	// deck of (builder method, arity) cells for generic filters that are re-configured after use
	filterDeck        []deckCard
	filterDeckPos     int
	filterDeckStarted bool
	mapBSeq           = -1
	genSeed           int64 // seed of this generator process (set by cmdGen)
)

func (g *generator) buildDeck() {
	deck = deck[:0]
	for ar := 1; ar <= 12; ar++ {
		for _, api := range []string{"New", "NewWith", "NewBatch", "NewBatchQ", "Add", "Remove", "AddBatch", "AddBatchQ",
			"RemoveBatch", "RemoveBatchQ"} {
			deck = append(deck, deckCard{api, ar, false}, deckCard{api, ar, true})
			if api != "New" && api != "NewWith" && api != "NewBatch" && api != "NewBatchQ" {
				// a third variant: the Map is built WITH a relation type, but the call gets no target (plain semantics)
				deck = append(deck, deckCard{api + "+rel", ar, false})
			}
		}
		for _, api := range []string{"Assign", "RemoveEntities", "RemoveEntitiesQ", "Get"} {
			deck = append(deck, deckCard{api, ar, false})
		}
	}
	g.rng.Shuffle(len(deck), func(i, j int) { deck[i], deck[j] = deck[j], deck[i] })
	deckPos = 0
}

// playCard turns the top card into an operation. Preparatory operations leave the card on top.
func (g *generator) playCard(alive []int) (Op, bool) {
	if deckPos >= len(deck) {
		g.buildDeck()
	}
	c := deck[deckPos]
	relNoTarget := strings.HasSuffix(c.api, "+rel")
	c.api = strings.TrimSuffix(c.api, "+rel")
	ar := c.ar
	// the Map of arity ar covers ids 0..ar-1; id 2 is a relation component
	withRel := ar >= 3
	setTarget := func(op *Op) {
		if relNoTarget {
			// relation 12 lies outside every Map's own components; entities may carry it with a target they must keep
			op.HasRel, op.Rel = true, 12
			if withRel && g.pct(50) {
				op.Rel = 2
			}
			return
		}
		if !c.tgt {
			return
		}
		op.HasTgt = true
		op.Tgt = g.target(false)
		if withRel && g.pct(70) {
			op.HasRel, op.Rel = true, 2 // otherwise: a target for a Map built without relation must be rejected
		}
	}
	lead := func(mask []int) int {
		n := 0
		for n < 12 && !contains(mask, n) {
			n++
		}
		return n
	}
	run := func(mask []int) int {
		n := 0
		for n < 12 && contains(mask, n) {
			n++
		}
		return n
	}
	switch c.api {
	case "New", "NewWith", "NewBatch", "NewBatchQ":
		deckPos++
		op := Op{Op: "BuilderNew", Api: "generic.Map.New", Ar: ar, Tgt: -1}
		switch c.api {
		case "NewWith":
			op.Api, op.WithV, op.Vals = "generic.Map.NewWith", true, g.vals(seqIDs(ar))
		case "NewBatch":
			op.Op, op.Api, op.N = "NewBatch", "generic.Map.NewBatch", 1+g.rng.Intn(g.p.MaxBatch)
		case "NewBatchQ":
			op.Op, op.Api, op.N = "NewBatch", "generic.Map.NewBatchQ", 1+g.rng.Intn(g.p.MaxBatch)
			op.Q, op.Walk = true, g.walk()
		}
		setTarget(&op)
		return op, true
	case "Add", "Assign":
		for _, ref := range alive {
			m := g.maskOf(ref)
			if lead(m) >= ar && (!withRel || g.relOf(m) < 0) {
				deckPos++
				op := Op{Op: "Exchange", Api: "generic.Map.Add", E: ref, Ar: ar, Tgt: -1}
				if c.api == "Assign" {
					op.Op, op.Api, op.Vals = "Assign", "generic.Map.Assign", g.vals(seqIDs(ar))
				} else {
					setTarget(&op)
				}
				return op, true
			}
		}
		return Op{Op: "NewEntity", Api: "World.NewEntity", Ids: []int{}}, true
	case "Remove", "Get":
		if dead := g.deadRefs(); c.api == "Get" && len(dead) > 0 && g.pct(50) {
			// a stale handle (its id may have been recycled since): every position of Get must reject it
			deckPos++
			// prefer a stale handle whose id is in use again
			ref := g.pickDead(dead)
			for _, d := range dead {
				for _, a := range alive {
					if g.x.issued[d].ID() == g.x.issued[a].ID() && g.pct(50) {
						ref = d
					}
				}
			}
			return Op{Op: "Read", Api: "generic.Map.Get", E: ref, Ar: ar}, true
		}
		for _, ref := range alive {
			m := g.maskOf(ref)
			if run(m) >= ar {
				deckPos++
				if c.api == "Get" {
					return Op{Op: "Read", Api: "generic.Map.Get", E: ref, Ar: ar}, true
				}
				op := Op{Op: "Exchange", Api: "generic.Map.Remove", E: ref, Ar: ar, Tgt: -1}
				if c.tgt && contains(m, 12) {
					op.HasRel, op.Rel, op.HasTgt = true, 12, true
					op.Tgt = g.target(false)
				} else if c.tgt || relNoTarget {
					// target although the relation component goes away with the removal: must be rejected
					// (or: relation configured, no target - plain removal)
					setTarget(&op)
				}
				return op, true
			}
		}
		return Op{Op: "BuilderNew", Api: "generic.Map.New", Ar: ar, Tgt: -1}, true
	case "AddBatch", "AddBatchQ":
		// a filter over one high component that only entities without 0..ar-1 carry
		for _, hi := range []int{11, 10, 9, 8, 7, 6, 5, 4, 3} {
			if hi < ar {
				break
			}
			f := &FSpec{K: "all", Ids: []int{hi}, Tgt: -1}
			match := g.matching(f)
			ok := len(match) > 0
			for _, ref := range match {
				m := g.maskOf(ref)
				ok = ok && lead(m) >= ar && (!withRel || g.relOf(m) < 0)
			}
			if ok {
				deckPos++
				op := Op{Op: "BatchExchange", Api: "generic.Map." + c.api, F: f, Ar: ar, Tgt: -1}
				if c.api == "AddBatchQ" {
					op.Q, op.Walk = true, g.walk()
				}
				setTarget(&op)
				return op, true
			}
		}
		if ar >= 12 {
			deckPos++ // no component above the arity to select by
			return Op{}, false
		}
		return Op{Op: "NewEntity", Api: "World.NewEntity", Ids: []int{11}}, true
	case "RemoveBatch", "RemoveBatchQ":
		f := &FSpec{K: "all", Ids: seqIDs(ar), Tgt: -1}
		if len(g.matching(f)) == 0 {
			return Op{Op: "BuilderNew", Api: "generic.Map.New", Ar: ar, Tgt: -1}, true
		}
		deckPos++
		op := Op{Op: "BatchExchange", Api: "generic.Map." + c.api, F: f, Ar: ar, Tgt: -1}
		if c.api == "RemoveBatchQ" {
			op.Q, op.Walk = true, g.walk()
		}
		setTarget(&op)
		return op, true
	case "RemoveEntities", "RemoveEntitiesQ":
		deckPos++
		return Op{Op: "BatchRemove", Api: "generic.Map.RemoveEntities", Ar: ar, Q: c.api == "RemoveEntitiesQ"}, true
	}
	deckPos++
	return Op{}, false
}

// retargetPlan: a child c of an alive target t; t dies (c keeps the dead target), the next creation recycles t's id
// (LIFO free list), then c is re-targeted to the recycler - same id, other generation - by an operation that keeps
// the relation component: Relations.Exchange adding or removing another component, Relations.Set, or a batch form.
func (g *generator) retargetPlan(alive []int) (plan []Op) {
	defer func() {
		if recover() != nil {
			plan = nil
		}
	}()
	type cand struct{ c, t, rel int }
	cands := []cand{}
	for _, c := range alive {
		m := g.maskOf(c)
		rel := g.relOf(m)
		if rel < 0 {
			continue
		}
		t := g.x.w.Relations().Get(g.x.issued[c], g.x.idOf(rel))
		if t.IsZero() || !g.x.w.Alive(t) || t == g.x.issued[c] {
			continue
		}
		for _, r := range alive {
			if g.x.issued[r] == t {
				cands = append(cands, cand{c, r, rel})
				break
			}
		}
	}
	if len(cands) == 0 {
		return nil
	}
	k := cands[g.rng.Intn(len(cands))]
	p2 := len(g.x.issued) // reference of the entity created next
	mask := g.maskOf(k.c)
	absent := []int{}
	for _, x := range g.nons {
		if !contains(mask, x) {
			absent = append(absent, x)
		}
	}
	present := []int{}
	for _, x := range mask {
		if !contains(g.rels, x) {
			present = append(present, x)
		}
	}
	plan = []Op{{Op: "RemoveEntity", E: k.t}, {Op: "NewEntity", Api: "World.NewEntity", Ids: g.subset(g.nons, 1)}}
	var last Op
	switch r := g.rng.Intn(10); {
	case r < 4 && len(absent) > 0:
		last = Op{Op: "Exchange", Api: "Relations.Exchange", E: k.c, Add: []int{g.pick(absent)}, Rem: []int{}, HasRel: true, Rel: k.rel, HasTgt: true, Tgt: p2}
	case r < 7 && len(present) > 0:
		last = Op{Op: "Exchange", Api: "Relations.Exchange", E: k.c, Add: []int{}, Rem: []int{g.pick(present)}, HasRel: true, Rel: k.rel, HasTgt: true, Tgt: p2}
	case r < 9:
		last = Op{Op: "SetRelation", E: k.c, Rel: k.rel, Tgt: p2}
	default:
		last = Op{Op: "BatchSetRelation", Api: "Batch.SetRelation", F: &FSpec{K: "all", Ids: []int{k.rel}, Tgt: -1}, Rel: k.rel, Tgt: p2}
	}
	return append(plan, last)
}

// orphanPlan: two children of one parent in different relation nodes; the parent dies (both keep the dead target);
// one child moves into the other's node by a call that names no target; then the dead parent's children are
// looked up by relation filter (plain and - if any filter is registered - through the sweep) and re-parented in batch.
func (g *generator) orphanPlan() []Op {
	if len(g.rels) == 0 || len(g.nons) == 0 {
		return nil
	}
	rel := g.pick(g.rels)
	x := g.pick(g.nons)
	p := len(g.x.issued)
	c1, c2 := p+1, p+2
	child := func(ids []int) Op {
		return Op{Op: "BuilderNew", Api: "Builder.New", Ids: ids, HasRel: true, Rel: rel, HasTgt: true, Tgt: p}
	}
	rf := func() *FSpec {
		return &FSpec{K: "rel", Subs: []*FSpec{{K: "all", Ids: []int{rel}, Tgt: -1}}, Tgt: p}
	}
	if g.pct(45) {
		// variant: the parent's table in the second node is emptied first (two children, so that the second creation
		// finds the table), then the parent dies and the table is retired; the orphan of the first node then moves
		// into that node, and a new parent gets a child there - the retired table is put to use again
		c3 := p + 3
		p2 := p + 4
		return []Op{{Op: "NewEntity", Api: "World.NewEntity", Ids: []int{}}, child([]int{rel}), child([]int{rel, x}), child([]int{rel, x}),
			{Op: "RemoveEntity", E: c2}, {Op: "RemoveEntity", E: c3}, {Op: "RemoveEntity", E: p},
			{Op: "Exchange", Api: "World.Add", E: c1, Add: []int{x}, Rem: []int{}, Tgt: -1},
			{Op: "NewEntity", Api: "World.NewEntity", Ids: []int{}},
			{Op: "BuilderNew", Api: "Builder.New", Ids: []int{rel, x}, HasRel: true, Rel: rel, HasTgt: true, Tgt: p2},
			{Op: "Panel", F: &FSpec{K: "rel", Subs: []*FSpec{{K: "all", Ids: []int{rel}, Tgt: -1}}, Tgt: p2}, Walk: g.walk()},
			{Op: "Panel", F: rf(), Walk: g.walk()}}
	}
	plan := []Op{{Op: "NewEntity", Api: "World.NewEntity", Ids: []int{}}, child([]int{rel}), child([]int{rel, x}),
		{Op: "RemoveEntity", E: p}}
	if g.pct(50) {
		plan = append(plan, Op{Op: "Exchange", Api: "World.Add", E: c1, Add: []int{x}, Rem: []int{}, Tgt: -1})
	} else {
		plan = append(plan, Op{Op: "Exchange", Api: "World.Remove", E: c2, Add: []int{}, Rem: []int{x}, Tgt: -1})
	}
	plan = append(plan, Op{Op: "Panel", F: rf(), Walk: g.walk()})
	if g.pct(50) {
		plan = append(plan, Op{Op: "BatchSetRelation", Api: "Batch.SetRelation", F: rf(), Rel: rel, Tgt: g.target(false)})
	}
	return plan
}

// currentTargetRef returns the reference of ref's current target for relation rel: -1 for the zero entity,
// -2 if it cannot be named (dead target of an earlier epoch, no relation).
func (g *generator) currentTargetRef(ref, rel int) (res int) {
	defer func() {
		if recover() != nil {
			res = -2
		}
	}()
	t := g.x.w.Relations().Get(g.x.issued[ref], g.x.idOf(rel))
	if t.IsZero() {
		return -1
	}
	if !g.x.w.Alive(t) {
		return -2
	}
	for i := len(g.x.issued) - 1; i >= g.x.epoch; i-- {
		if g.x.issued[i] == t {
			return i
		}
	}
	return -2
}

// mixedBatchPlan: children of two parents in one relation node; one batch exchange names the first parent as the
// target - the first table only gains / loses a component, the second one also changes target, so the event type
// bits differ between the tables of one batch (and with them what a partially subscribed listener must receive).
func (g *generator) mixedBatchPlan() []Op {
	if len(g.rels) == 0 || len(g.nons) < 1 {
		return nil
	}
	rel := g.pick(g.rels)
	y := g.pick(g.nons)
	p1 := len(g.x.issued)
	p2 := p1 + 1
	child := func(t int) Op {
		return Op{Op: "BuilderNew", Api: "Builder.New", Ids: []int{rel}, HasRel: true, Rel: rel, HasTgt: true, Tgt: t}
	}
	plan := []Op{{Op: "NewEntity", Api: "World.NewEntity", Ids: []int{}}, {Op: "NewEntity", Api: "World.NewEntity", Ids: []int{}},
		child(p1), child(p2), child(p2)}
	f := &FSpec{K: "excl", Ids: []int{rel}, Tgt: -1}
	tgt := p1
	switch r := g.rng.Intn(10); {
	case r < 3:
		tgt = p2
	case r < 6:
		tgt = -1 // the explicit zero target: both tables are reset
	}
	op := Op{Op: "BatchExchange", Api: "Relations.ExchangeBatch", F: f, Add: []int{y}, Rem: []int{}, HasRel: true, Rel: rel, Tgt: tgt}
	if g.pct(40) {
		op.Q, op.Api, op.Walk = true, "Relations.ExchangeBatchQ", g.walk()
	}
	return append(plan, op)
}

// pickDead chooses a stale handle, preferring those whose id is in use again (by an entity that is a relation
// target, if there is one): the handles that only the generation tells apart from an alive entity.
func (g *generator) pickDead(dead []int) (res int) {
	res = dead[g.rng.Intn(len(dead))]
	defer func() { recover() }()
	if !g.pct(65) {
		return res
	}
	alive := g.aliveRefs()
	byID := map[uint32]int{}
	for _, a := range alive {
		byID[uint32(g.x.issued[a].ID())] = a
	}
	targets := map[uint32]bool{}
	for _, c := range alive {
		if rel := g.relOf(g.maskOf(c)); rel >= 0 {
			if t := g.x.w.Relations().Get(g.x.issued[c], g.x.idOf(rel)); !t.IsZero() {
				targets[uint32(t.ID())] = true
			}
		}
	}
	recycled, recycledTargets := []int{}, []int{}
	for _, d := range dead {
		id := uint32(g.x.issued[d].ID())
		if _, ok := byID[id]; ok {
			recycled = append(recycled, d)
			if targets[id] {
				recycledTargets = append(recycledTargets, d)
			}
		}
	}
	switch {
	case len(recycledTargets) > 0 && g.pct(60):
		return recycledTargets[g.rng.Intn(len(recycledTargets))]
	case len(recycled) > 0:
		return recycled[g.rng.Intn(len(recycled))]
	}
	return res
}

// staleTargetPlan: an entity dies, its id is recycled, the new owner becomes a relation target (so every per-id
// record says "target"), and then the STALE handle is offered as a target through every entry point that takes one.
// Each of these calls is illegal (dead target) and must be rejected.
func (g *generator) staleTargetPlan() []Op {
	if len(g.rels) == 0 {
		return nil
	}
	rel := g.pick(g.rels)
	stale := len(g.x.issued)
	owner := stale + 1
	child := stale + 2
	plan := []Op{{Op: "NewEntity", Api: "World.NewEntity", Ids: []int{}}, {Op: "RemoveEntity", E: stale},
		{Op: "NewEntity", Api: "World.NewEntity", Ids: []int{}},
		{Op: "BuilderNew", Api: "Builder.New", Ids: []int{rel}, HasRel: true, Rel: rel, HasTgt: true, Tgt: owner}}
	tries := []Op{
		{Op: "NewBatch", Api: "Builder.NewBatch", Ids: []int{rel}, N: 2, HasRel: true, Rel: rel, HasTgt: true, Tgt: stale},
		{Op: "NewBatch", Api: "Builder.NewBatchQ", Ids: []int{rel}, N: 2, Q: true, Walk: g.walk(), HasRel: true, Rel: rel, HasTgt: true, Tgt: stale},
		{Op: "NewBatch", Api: "Builder.NewBatch", Ids: []int{rel}, Vals: g.vals([]int{rel}), WithV: true, N: 1, HasRel: true, Rel: rel, HasTgt: true, Tgt: stale},
		{Op: "BuilderNew", Api: "Builder.New", Ids: []int{rel}, HasRel: true, Rel: rel, HasTgt: true, Tgt: stale},
		{Op: "BuilderNew", Api: "Builder.New", Ids: []int{rel}, Vals: g.vals([]int{rel}), WithV: true, HasRel: true, Rel: rel, HasTgt: true, Tgt: stale},
		{Op: "SetRelation", E: child, Rel: rel, Tgt: stale},
		{Op: "BatchSetRelation", Api: "Batch.SetRelation", F: &FSpec{K: "all", Ids: []int{rel}, Tgt: -1}, Rel: rel, Tgt: stale},
	}
	g.rng.Shuffle(len(tries), func(i, j int) { tries[i], tries[j] = tries[j], tries[i] })
	return append(plan, tries[:3]...)
}
