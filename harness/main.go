package main

import (
	"bufio"
	"encoding/json"
	"flag"
	"fmt"
	"math/rand"
	"os"
	"runtime"
	"runtime/debug"
	"sync"

	"github.com/mlange-42/arche/ecs"
)

func fatal(err error) {
	if err != nil {
		fmt.Fprintln(os.Stderr, "harness error:", err)
		os.Exit(2)
	}
}

type lineWriter struct {
	f *os.File
	w *bufio.Writer
	n int
}

func newLineWriter(path string) *lineWriter {
	f, err := os.Create(path)
	fatal(err)
	return &lineWriter{f: f, w: bufio.NewWriterSize(f, 1<<20)}
}

func (lw *lineWriter) write(v interface{}) {
	b, err := json.Marshal(v)
	fatal(err)
	lw.w.Write(b)
	lw.w.WriteByte('\n')
	lw.n++
	if flushEveryLine {
		lw.w.Flush()
	}
}

// VERIF_FLUSH=1: every trace line reaches the file at once (used when re-running a schedule that killed the process)
var flushEveryLine = os.Getenv("VERIF_FLUSH") != ""

// journal of the schedule being generated: the header, then every operation BEFORE it is executed, unbuffered,
// so that a schedule that kills the process (runtime fault inside a library call) can be recovered and replayed
type journal struct{ f *os.File }

func (j *journal) write(v interface{}) {
	if j == nil || j.f == nil {
		return
	}
	b, err := json.Marshal(v)
	fatal(err)
	j.f.Write(append(b, '\n'))
}

func (lw *lineWriter) close() {
	fatal(lw.w.Flush())
	fatal(lw.f.Close())
}

// newWorldLine describes a freshly created world.
func newWorldLine(x *World, widx int) map[string]interface{} {
	comps := []interface{}{}
	for _, n := range x.compNums {
		c := x.comps[n]
		comps = append(comps, map[string]interface{}{"id": n, "kind": c.kind, "rel": c.isRel, "sized": c.sized})
	}
	if x.h.Generic {
		c := x.comps[lateComp] // declared, not yet registered (and never chosen at random: not in compNums)
		comps = append(comps, map[string]interface{}{"id": lateComp, "kind": c.kind, "rel": c.isRel, "sized": c.sized})
	}
	h := x.h
	line := map[string]interface{}{
		"i": 0, "w": widx, "op": "NewWorld", "api": "",
		"args": map[string]interface{}{
			"name": h.Name, "comps": comps, "capInc": h.CapInc, "relCapInc": h.RelCapInc, "nres": h.NRes,
			"listener": h.Listener, "ls": h.LS, "lc": nonNil(h.LC), "lhasc": h.LHasC, "probe": h.Probe,
			"dispatch": dispatchDesc(h.Dispatch), "isDispatch": len(h.Dispatch) > 0,
			"totalBits": ecs.MaskTotalBits,
		},
		"res":    map[string]interface{}{"panic": false, "cls": "", "msg": "", "ret": -1, "handles": [][2]int{}},
		"events": []interface{}{},
		"obs":    x.observe(),
		"anom":   []string{},
	}
	if h.Sweep {
		line["sweep"] = x.sweep()
	}
	if h.Shape {
		line["shape"] = x.w.VerifShape()
	}
	return line
}

func dispatchDesc(d []LSpec) []interface{} {
	res := []interface{}{}
	for _, l := range d {
		res = append(res, map[string]interface{}{"s": l.S, "c": nonNil(l.C), "hasc": l.HasC && len(l.C) > 0})
	}
	return res
}

// runSchedule executes a complete schedule and writes its trace.
func runSchedule(h Header, out *lineWriter) {
	if h.TrackPay {
		payTrack = true
	}
	s := newSession(h, out)
	for i, op := range h.Ops {
		if h.GCEvery > 0 && i%h.GCEvery == 0 {
			runtime.GC()
		}
		s.step(op)
	}
}

func cmdRun(args []string) {
	fs := flag.NewFlagSet("run", flag.ExitOnError)
	in := fs.String("in", "", "schedule file (ndjson, one schedule per line)")
	outp := fs.String("out", "", "trace file (ndjson)")
	fs.Parse(args)
	f, err := os.Open(*in)
	fatal(err)
	defer f.Close()
	out := newLineWriter(*outp)
	sc := bufio.NewScanner(f)
	sc.Buffer(make([]byte, 1<<20), 1<<28)
	n := 0
	for sc.Scan() {
		if len(sc.Bytes()) == 0 {
			continue
		}
		var h Header
		fatal(json.Unmarshal(sc.Bytes(), &h))
		// which schedule is running (read back if the process dies inside a library call)
		os.WriteFile(*outp+".progress", []byte(fmt.Sprintf("%d", n)), 0o644)
		runSchedule(h, out)
		n++
	}
	fatal(sc.Err())
	out.close()
	fmt.Printf("{\"schedules\":%d,\"lines\":%d}\n", n, out.n)
}

func cmdGen(args []string) {
	fs := flag.NewFlagSet("gen", flag.ExitOnError)
	prof := fs.String("profile", "", "profile file (json)")
	seed := fs.Int64("seed", 1, "seed")
	n := fs.Int("n", 10, "number of schedules")
	outp := fs.String("out", "", "trace file (ndjson)")
	schedp := fs.String("sched", "", "schedule output file (ndjson)")
	fs.Parse(args)
	var p Profile
	b, err := os.ReadFile(*prof)
	fatal(err)
	fatal(json.Unmarshal(b, &p))
	if p.Weights == nil {
		p.Weights = defaultWeights()
	}
	if p.MaxBatch < 1 {
		p.MaxBatch = 4
	}
	if p.MaxEnts < 1 {
		p.MaxEnts = 10
	}
	if len(p.CapIncs) == 0 {
		p.CapIncs = []int{128}
	}
	out := newLineWriter(*outp)
	var sched *lineWriter
	if *schedp != "" {
		sched = newLineWriter(*schedp)
	}
	genSeed = *seed
	var jr *journal
	if *schedp != "" {
		jf, err := os.Create(*schedp + ".journal")
		fatal(err)
		jr = &journal{f: jf}
	}
	for k := 0; k < *n; k++ {
		rng := rand.New(rand.NewSource(*seed*1000003 + int64(k)))
		h := Header{
			Name:     fmt.Sprintf("%s-%d-%d", p.Name, *seed, k),
			CapInc:   p.CapIncs[rng.Intn(len(p.CapIncs))],
			Comps:    p.Comps,
			NRes:     p.NRes,
			Listener: rng.Intn(100) < p.Listener,
			LS:       63,
			Generic:  p.Generic,
			GCEvery:  p.GCEvery,
			TrackPay: p.TrackPay,
			Probe:    p.Probe && !p.RandListener,
			Sweep:    p.Sweep,
			Shape:    p.Shape,
		}
		if rng.Intn(3) == 0 {
			h.RelCapInc = 1 + rng.Intn(3)
		}
		if p.PermuteTypes {
			// the same Go types are registered under different ids in different worlds
			comps := append([]CompSpec{}, p.Comps...)
			byKind := map[string][]int{}
			for i, c := range comps {
				byKind[c.Kind] = append(byKind[c.Kind], i)
			}
			for _, idx := range byKind {
				for j, i := range idx {
					comps[i].Key = comps[idx[(j+k)%len(idx)]].ID + 1
				}
			}
			h.Comps = comps
		}
		if p.RandListener {
			randL := func() LSpec {
				l := LSpec{S: rng.Intn(64)}
				if rng.Intn(3) == 0 {
					l.S = []int{63, 1, 2, 4, 8, 16, 32, 48, 3, 12, 16, 32, 48, 50, 56}[rng.Intn(15)]
				}
				if rng.Intn(100) < 60 {
					l.HasC = true
					for _, c := range p.Comps {
						pc := 35
						if kindIsRel(c.Kind) && l.S&(1|4) == 0 && l.S&(16|32) != 0 {
							// subscribed to relation / target changes but not to creation or addition: whether the
							// listener hears of a new relation hinges on the relation component being in its restriction
							pc = 75
						}
						if rng.Intn(100) < pc {
							l.C = append(l.C, c.ID)
						}
					}
					if len(l.C) == 0 {
						l.C = []int{p.Comps[rng.Intn(len(p.Comps))].ID}
					}
				}
				return l
			}
			if rng.Intn(100) < p.DispatchPct {
				n := 1 + rng.Intn(4)
				for i := 0; i < n; i++ {
					h.Dispatch = append(h.Dispatch, randL())
				}
				h.Listener = true
			} else {
				l := randL()
				h.Listener, h.LS, h.LC, h.LHasC = true, l.S, l.C, l.HasC
			}
		}
		h.Twin = p.Twin
		if h.TrackPay {
			payTrack = true
		}
		jr.write(map[string]interface{}{"header": h})
		ss := newSession(h, out)
		x := ss.a
		g := &generator{rng: rng, p: &p, x: x, ss: ss}
		for _, c := range x.compNums {
			if x.comps[c].isRel {
				g.rels = append(g.rels, c)
			} else {
				g.nons = append(g.nons, c)
			}
		}
		steps := p.Steps
		for i := 0; i < steps; i++ {
			if h.GCEvery > 0 && i%h.GCEvery == 0 {
				runtime.GC()
			}
			op := g.next()
			jr.write(map[string]interface{}{"op": op})
			line := ss.step(op)
			g.markClosed(op, line)
			h.Ops = append(h.Ops, op)
			if an, ok := line["anom"].([]string); ok && len(an) > 0 && !g.focus {
				// witness continuation: concentrate on the structures an anomaly can affect
				g.focus = true
				steps += 60
			}
		}
		if sched != nil {
			sched.write(h)
		}
	}
	out.close()
	if sched != nil {
		sched.close()
	}
	fmt.Printf("{\"schedules\":%d,\"lines\":%d}\n", *n, out.n)
}

func main() {
	debug.SetGCPercent(100)
	if os.Getenv("VERIF_GCSTRESS") != "" {
		// force collections concurrently with the operations
		go func() {
			for {
				runtime.GC()
				runtime.Gosched()
			}
		}()
	}
	if len(os.Args) < 2 {
		fmt.Fprintln(os.Stderr, "usage: harness <run|gen|...> [flags]")
		os.Exit(2)
	}
	switch os.Args[1] {
	case "run":
		cmdRun(os.Args[2:])
	case "gen":
		cmdGen(os.Args[2:])
	default:
		if f, ok := extraCommands[os.Args[1]]; ok {
			f(os.Args[2:])
			return
		}
		fmt.Fprintln(os.Stderr, "unknown command", os.Args[1])
		os.Exit(2)
	}
}

var extraCommands = map[string]func([]string){"worlds": cmdWorlds}

// cmdWorlds replays schedules on distinct worlds from k goroutines running truly in parallel (C19).
func cmdWorlds(args []string) {
	fs := flag.NewFlagSet("worlds", flag.ExitOnError)
	in := fs.String("in", "", "schedule file")
	prefix := fs.String("out", "", "trace file prefix")
	k := fs.Int("k", 8, "goroutines")
	fs.Parse(args)
	f, err := os.Open(*in)
	fatal(err)
	sc := bufio.NewScanner(f)
	sc.Buffer(make([]byte, 1<<20), 1<<28)
	var hs []Header
	for sc.Scan() {
		if len(sc.Bytes()) == 0 {
			continue
		}
		var h Header
		fatal(json.Unmarshal(sc.Bytes(), &h))
		hs = append(hs, h)
	}
	f.Close()
	initIDTable()
	start := make(chan struct{})
	var wg sync.WaitGroup
	for g := 0; g < *k; g++ {
		wg.Add(1)
		go func(g int) {
			defer wg.Done()
			out := newLineWriter(fmt.Sprintf("%s-%d.ndjson", *prefix, g))
			<-start
			for i := g; i < len(hs); i += *k {
				runSchedule(hs[i], out)
			}
			out.close()
		}(g)
	}
	close(start)
	wg.Wait()
	fmt.Printf("{\"schedules\":%d,\"goroutines\":%d}\n", len(hs), *k)
}
