package main

import (
	"flag"
	"fmt"
	"math/rand"

	"github.com/mlange-42/arche/ecs"
)

// C04: stateless call traces on real ecs.Mask and filter values.

func init() { extraCommands["masks"] = cmdMasks }

type maskEnc struct {
	C   bool  `json:"c"`   // complement encoding: the mask is everything except Ids
	Ids []int `json:"ids"` // ids
}

// encMask reads a mask through Get for every id.
func encMask(m *ecs.Mask) maskEnc {
	set := []int{}
	unset := []int{}
	for i := 0; i < ecs.MaskTotalBits; i++ {
		if m.Get(idTable[i]) {
			set = append(set, i)
		} else {
			unset = append(unset, i)
		}
	}
	if len(set) > ecs.MaskTotalBits/2 {
		return maskEnc{C: true, Ids: unset}
	}
	return maskEnc{C: false, Ids: set}
}

func maskOfIDs(ids []int) ecs.Mask {
	l := make([]ecs.ID, len(ids))
	for i, n := range ids {
		l[i] = idTable[n]
	}
	return ecs.All(l...)
}

func binLine(name string, a, b ecs.Mask) map[string]interface{} {
	and := a.And(&b)
	or := a.Or(&b)
	xor := a.Xor(&b)
	return map[string]interface{}{
		"op": "bin", "name": name, "a": encMask(&a), "b": encMask(&b),
		"and": encMask(&and), "or": encMask(&or), "xor": encMask(&xor),
		"contains": a.Contains(&b), "containsAny": a.ContainsAny(&b),
		"rcontains": b.Contains(&a), "eq": a == b,
	}
}

func unLine(a ecs.Mask, probe []int) map[string]interface{} {
	not := a.Not()
	gets := []bool{}
	sets := []maskEnc{}
	clrs := []maskEnc{}
	for _, p := range probe {
		gets = append(gets, a.Get(idTable[p]))
		s := a
		s.Set(idTable[p], true)
		sets = append(sets, encMask(&s))
		c := a
		c.Set(idTable[p], false)
		clrs = append(clrs, encMask(&c))
	}
	r := a
	r.Reset()
	return map[string]interface{}{
		"op": "un", "a": encMask(&a), "not": encMask(&not), "isZero": a.IsZero(), "total": a.TotalBitsSet(),
		"probe": probe, "gets": gets, "sets": sets, "clrs": clrs, "reset": encMask(&r),
		// filter semantics of plain masks
		"without": nil,
	}
}

func cmdMasks(args []string) {
	fs := flag.NewFlagSet("masks", flag.ExitOnError)
	seed := fs.Int64("seed", 1, "seed")
	tier := fs.String("tier", "quick", "tier")
	outp := fs.String("out", "", "trace file")
	part := fs.Int("part", 0, "partition index")
	parts := fs.Int("parts", 1, "number of partitions")
	fs.Parse(args)
	initIDTable()
	rng := rand.New(rand.NewSource(*seed))
	out := newLineWriter(*outp)
	n := ecs.MaskTotalBits
	out.write(map[string]interface{}{"op": "hdr", "totalBits": n})
	boundary := []int{}
	for _, b := range []int{0, 1, 31, 32, 62, 63, 64, 65, 127, 128, 129, 191, 192, 193, 254, 255} {
		if b < n {
			boundary = append(boundary, b)
		}
	}
	second := boundary
	if *tier == "thorough" {
		second = make([]int, n)
		for i := range second {
			second[i] = i
		}
	}
	k := 0
	emit := func(l map[string]interface{}) {
		if k%*parts == *part {
			delete(l, "without")
			out.write(l)
		}
		k++
	}
	// singles and pairs
	for i := 0; i < n; i++ {
		a := maskOfIDs([]int{i})
		emit(unLine(a, append([]int{i, (i + 1) % n, (i + 64) % n}, boundary[:4]...)))
		na := a.Not()
		emit(unLine(na, []int{i, (i + 1) % n, (i + 63) % n}))
		for _, j := range second {
			b := maskOfIDs([]int{j})
			ab := maskOfIDs([]int{i, j})
			nb := b.Not()
			nab := ab.Not()
			emit(unLine(ab, []int{i, j, (j + 1) % n}))
			emit(unLine(nab, []int{i, j, (i + 1) % n}))
			emit(binLine("single-single", a, b))
			emit(binLine("pair-single", ab, b))
			emit(binLine("single-pair", a, ab))
			emit(binLine("compl-single", na, b))
			emit(binLine("single-compl", a, nb))
			emit(binLine("complpair-pair", nab, ab))
			emit(binLine("compl-compl", na, nb))
		}
	}
	// word patterns: every word of the mask empty / full / top bit / bottom bit / all but the top bit - the masks on
	// which word-wise arithmetic (carries, wrapping sums, shifted comparisons) differs from set semantics
	words := n / 64
	pats := 1
	for w := 0; w < words; w++ {
		pats *= 5
	}
	var prevPat ecs.Mask
	for pc := 0; pc < pats; pc++ {
		ids := []int{}
		c := pc
		for w := 0; w < words; w++ {
			lo, hi := w*64, w*64+63
			switch c % 5 {
			case 1:
				for i := lo; i <= hi; i++ {
					ids = append(ids, i)
				}
			case 2:
				ids = append(ids, hi)
			case 3:
				ids = append(ids, lo)
			case 4:
				for i := lo; i < hi; i++ {
					ids = append(ids, i)
				}
			}
			c /= 5
		}
		m := maskOfIDs(ids)
		emit(unLine(m, boundary))
		emit(binLine("wordpattern-wordpattern", m, prevPat))
		prevPat = m
	}
	// All() with duplicate ids, empty mask, full mask
	empty := ecs.Mask{}
	full := empty.Not()
	emit(unLine(empty, boundary))
	emit(unLine(full, boundary))
	emit(binLine("empty-full", empty, full))
	emit(binLine("full-full", full, full))
	emit(binLine("empty-empty", empty, empty))
	// random masks of every density
	nr := 300
	if *tier == "thorough" {
		nr = 6000
	}
	randMask := func() ecs.Mask {
		dens := rng.Intn(101)
		ids := []int{}
		for i := 0; i < n; i++ {
			if rng.Intn(100) < dens {
				ids = append(ids, i)
			}
		}
		// duplicates must not matter for All
		if len(ids) > 0 {
			ids = append(ids, ids[rng.Intn(len(ids))])
		}
		return maskOfIDs(ids)
	}
	for r := 0; r < nr; r++ {
		a, b := randMask(), randMask()
		emit(binLine("random", a, b))
		probe := []int{rng.Intn(n), rng.Intn(n), rng.Intn(n)}
		emit(unLine(a, probe))
		// related masks: subset / superset / one bit apart
		sub := a.And(&b)
		emit(binLine("superset-subset", a, sub))
		one := a
		p := rng.Intn(n)
		one.Set(idTable[p], !one.Get(idTable[p]))
		emit(binLine("one-bit-apart", a, one))
	}
	// filters
	x := NewWorld(Header{CapInc: 8})
	atoms := [][]int{}
	base := []int{1, 63, 64, 130, 200}
	if n == 64 {
		base = []int{1, 31, 32, 62, 63}
	}
	mk := func(k string, ids []int, exc []int) *FSpec { return &FSpec{K: k, Ids: ids, Exc: exc, Tgt: -1} }
	var terms []*FSpec
	subsets := func(v []int) [][]int {
		res := [][]int{}
		for m := 0; m < 1<<len(v); m++ {
			s := []int{}
			for i := range v {
				if m&(1<<i) != 0 {
					s = append(s, v[i])
				}
			}
			res = append(res, s)
		}
		return res
	}
	univ := base[:4]
	if *tier == "thorough" {
		univ = base
	}
	atoms = subsets(univ)
	for _, s := range atoms {
		for _, k := range []string{"all", "excl", "any", "noneof", "anynot"} {
			terms = append(terms, mk(k, s, nil))
		}
		for _, e := range atoms {
			disjoint := true
			for _, c := range e {
				if contains(s, c) {
					disjoint = false
				}
			}
			if disjoint || rng.Intn(4) == 0 {
				terms = append(terms, mk("mf", s, e))
			}
		}
	}
	level0 := terms
	pickT := func(pool []*FSpec) *FSpec { return pool[rng.Intn(len(pool))] }
	nl := 400
	if *tier == "thorough" {
		nl = 4000
	}
	level1 := []*FSpec{}
	for i := 0; i < nl; i++ {
		k := []string{"and", "or", "xor", "not"}[rng.Intn(4)]
		if k == "not" {
			level1 = append(level1, &FSpec{K: k, Subs: []*FSpec{pickT(level0)}, Tgt: -1})
		} else {
			level1 = append(level1, &FSpec{K: k, Subs: []*FSpec{pickT(level0), pickT(level0)}, Tgt: -1})
		}
	}
	level2 := []*FSpec{}
	pool := append(append([]*FSpec{}, level0...), level1...)
	for i := 0; i < nl; i++ {
		k := []string{"and", "or", "xor", "not"}[rng.Intn(4)]
		if k == "not" {
			level2 = append(level2, &FSpec{K: k, Subs: []*FSpec{pickT(level1)}, Tgt: -1})
		} else {
			level2 = append(level2, &FSpec{K: k, Subs: []*FSpec{pickT(level1), pickT(pool)}, Tgt: -1})
		}
	}
	level3 := []*FSpec{}
	for i := 0; i < nl/2; i++ {
		k := []string{"and", "or", "xor", "not"}[rng.Intn(4)]
		if k == "not" {
			level3 = append(level3, &FSpec{K: k, Subs: []*FSpec{pickT(level2)}, Tgt: -1})
		} else {
			level3 = append(level3, &FSpec{K: k, Subs: []*FSpec{pickT(level2), pickT(pool)}, Tgt: -1})
		}
	}
	allTerms := append(append(append(level0, level1...), level2...), level3...)
	// component sets to match against: all subsets of the universe plus one foreign id
	ms := subsets(base)
	extra := []int{}
	for _, s := range ms {
		extra = append(extra, len(s))
	}
	_ = extra
	foreign := 17
	if n == 64 {
		foreign = 17
	}
	for _, s := range subsets(base[:3]) {
		ms = append(ms, append(append([]int{}, s...), foreign))
	}
	for _, t := range allTerms {
		f, d := x.buildFilter(t)
		res := make([]bool, len(ms))
		for i, m := range ms {
			mm := maskOfIDs(m)
			res[i] = f.Matches(&mm)
		}
		emit(map[string]interface{}{"op": "filter", "f": d, "ms": ms, "res": res})
	}
	out.close()
	fmt.Printf("{\"lines\":%d}\n", out.n)
}
