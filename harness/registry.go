package main

import (
	"flag"
	"fmt"
	"math/rand"
	"reflect"
	"unsafe"

	"github.com/mlange-42/arche/ecs"
)

// C16: type registry traces.

func init() { extraCommands["registry"] = cmdRegistry }

type shapeSpec struct {
	name  string
	isRel bool
	tp    reflect.Type
	sized bool
}

// mkShape creates the k-th distinct type of a shape class.
func mkShape(class string, k int) shapeSpec {
	tag := fmt.Sprintf("K%d", k)
	i64 := reflect.TypeOf(int64(0))
	rel := reflect.StructField{Name: "Relation", Type: relationType, Anonymous: true}
	fld := func(n string, t reflect.Type) reflect.StructField { return reflect.StructField{Name: n + tag, Type: t} }
	switch class {
	case "plain":
		return shapeSpec{class, false, reflect.StructOf([]reflect.StructField{fld("V", i64)}), true}
	case "empty":
		return shapeSpec{class, false, reflect.StructOf([]reflect.StructField{fld("Z", reflect.ArrayOf(0, i64))}), false}
	case "rel-first":
		return shapeSpec{class, true, reflect.StructOf([]reflect.StructField{rel, fld("V", i64)}), true}
	case "rel-only":
		return shapeSpec{class, true, reflect.StructOf([]reflect.StructField{rel, fld("Z", reflect.ArrayOf(0, i64))}), false}
	case "rel-later":
		// ecs.Relation embedded, but not as the first field: not a relation component
		return shapeSpec{class, false, reflect.StructOf([]reflect.StructField{fld("V", i64), rel}), true}
	case "rel-nested":
		// a struct whose first field is a struct that embeds ecs.Relation: not a relation component
		inner := reflect.StructOf([]reflect.StructField{rel, fld("V", i64)})
		return shapeSpec{class, false, reflect.StructOf([]reflect.StructField{fld("I", inner)}), true}
	case "rel-foreign":
		// a foreign type that is merely CALLED Relation, embedded as first field: not a relation component
		fr := reflect.StructField{Name: "Relation", Type: reflect.TypeOf(Relation{}), Anonymous: true}
		return shapeSpec{class, false, reflect.StructOf([]reflect.StructField{fr, fld("V", i64)}), true}
	case "rel-pointer":
		// *ecs.Relation embedded as first field: not a relation component
		pr := reflect.StructField{Name: "Relation", Type: reflect.PointerTo(relationType), Anonymous: true}
		return shapeSpec{class, false, reflect.StructOf([]reflect.StructField{pr, fld("V", i64)}), true}
	case "array":
		return shapeSpec{class, false, reflect.ArrayOf(k+1, reflect.TypeOf(int8(0))), true}
	case "int-array":
		return shapeSpec{class, false, reflect.ArrayOf(k+1, i64), true}
	case "pointer":
		return shapeSpec{class, false, reflect.PointerTo(reflect.StructOf([]reflect.StructField{fld("P", i64)})), false}
	}
	panic("unknown shape " + class)
}

var shapeClasses = []string{"plain", "empty", "rel-first", "rel-only", "rel-later", "rel-nested", "rel-foreign", "rel-pointer", "array", "int-array", "pointer"}

// Relation is a harness type that shares its name (not its identity) with ecs.Relation.
type Relation struct{ Kind int32 }

func cmdRegistry(args []string) {
	fs := flag.NewFlagSet("registry", flag.ExitOnError)
	seed := fs.Int64("seed", 1, "seed")
	target := fs.Int("count", 256, "number of component types to register (may exceed the limit)")
	inter := fs.Int("interleave", 0, "interleaving pattern 0..2")
	outp := fs.String("out", "", "trace file")
	fs.Parse(args)
	initIDTable()
	rng := rand.New(rand.NewSource(*seed*7919 + int64(*target)*31 + int64(*inter)))
	out := newLineWriter(*outp)
	w := ecs.NewWorld(ecs.NewConfig().WithCapacityIncrement(2))
	total := ecs.MaskTotalBits
	out.write(map[string]interface{}{"op": "hdr", "totalBits": total, "count": *target, "interleave": *inter})

	regs := []shapeSpec{}    // component types in registration order (as the harness believes)
	resRegs := []shapeSpec{} // resource types
	typeName := func(s shapeSpec) string { return s.tp.String() }

	snapshot := func() (res map[string]interface{}) {
		defer func() {
			if r := recover(); r != nil {
				res = map[string]interface{}{"ids": []int{}, "infos": []interface{}{}, "beyond": true, "rids": []int{},
					"statsCount": -1, "panic": fmt.Sprint(r)}
			}
		}()
		ids := []int{}
		for _, id := range ecs.ComponentIDs(&w) {
			ids = append(ids, idNum(id))
		}
		infos := []interface{}{}
		for i := 0; i < len(ids) && i < total; i++ {
			info, ok := ecs.ComponentInfo(&w, idTable[i])
			infos = append(infos, map[string]interface{}{"ok": ok, "id": idNum(info.ID), "rel": info.IsRelation,
				"type": fmt.Sprint(info.Type)})
		}
		beyond := false
		if len(ids) < total {
			_, beyond = ecs.ComponentInfo(&w, idTable[len(ids)])
		}
		rids := []int{}
		for _, id := range ecs.ResourceIDs(&w) {
			rids = append(rids, resNum(id))
		}
		return map[string]interface{}{"ids": ids, "infos": infos, "beyond": beyond, "rids": rids,
			"statsCount": w.Stats().ComponentCount}
	}
	register := func(s shapeSpec, lockedTry bool) {
		var q ecs.Query
		if lockedTry {
			q = w.Query(ecs.All())
		}
		r := guard(func(r *result) { r.ret = idNum(ecs.TypeID(&w, s.tp)) })
		if lockedTry {
			q.Close()
		}
		if !r.panicked && !lockedTry {
			known := false
			for _, x := range regs {
				known = known || x.tp == s.tp
			}
			if !known {
				regs = append(regs, s)
			}
		}
		out.write(map[string]interface{}{"op": "register", "type": typeName(s), "shape": s.name, "isRel": s.isRel,
			"locked": lockedTry, "res": map[string]interface{}{"panic": r.panicked, "ret": r.ret, "msg": r.msg},
			"snap": snapshot()})
	}
	registerRes := func(s shapeSpec) {
		r := guard(func(r *result) { r.ret = resNum(ecs.ResourceTypeID(&w, s.tp)) })
		out.write(map[string]interface{}{"op": "registerRes", "type": typeName(s),
			"res": map[string]interface{}{"panic": r.panicked, "ret": r.ret, "msg": r.msg}, "snap": snapshot()})
		if !r.panicked {
			known := false
			for _, x := range resRegs {
				known = known || x.tp == s.tp
			}
			if !known {
				resRegs = append(resRegs, s)
			}
		}
	}
	// use exercises a registered component id together with another one: create, has, add, set/get, query, move, remove
	use := func(a, b int) {
		steps := []interface{}{}
		step := func(name string, f func() interface{}) bool {
			var val interface{}
			r := guard(func(r *result) { val = f() })
			steps = append(steps, map[string]interface{}{"name": name, "panic": r.panicked, "val": fmt.Sprint(val), "msg": r.msg})
			return !r.panicked
		}
		ida, idb := idTable[a], idTable[b]
		sa := regs[a]
		// Has for EVERY registered id (whenever it was registered relative to the entity's table) is membership
		profile := func(e ecs.Entity, want map[int]bool) bool {
			for j := range regs {
				if w.Has(e, idTable[j]) != want[j] {
					return false
				}
				if (w.Get(e, idTable[j]) != nil) != (want[j] && regs[j].sized && regs[j].tp.Size() >= 1) && regs[j].sized && regs[j].tp.Size() >= 1 {
					return false
				}
			}
			return true
		}
		var e ecs.Entity
		ok := step("create", func() interface{} { e = w.NewEntity(ida); return w.Alive(e) })
		if ok {
			step("has", func() interface{} { return w.Has(e, ida) && profile(e, map[int]bool{a: true}) })
			step("get-non-nil", func() interface{} { return w.Get(e, ida) != nil })
			if sa.sized && sa.tp.Size() >= 1 {
				step("write-read", func() interface{} {
					p := w.Get(e, ida)
					*(*byte)(p) = 0x5a
					return *(*byte)(w.Get(e, ida)) == 0x5a
				})
			} else {
				step("write-read", func() interface{} { return true })
			}
			if a != b && !(regs[a].isRel && regs[b].isRel) {
				step("add-other", func() interface{} { w.Add(e, idb); return w.Has(e, idb) && w.Has(e, ida) })
				if sa.sized && sa.tp.Size() >= 1 {
					step("value-kept", func() interface{} { return *(*byte)(w.Get(e, ida)) == 0x5a })
				} else {
					step("value-kept", func() interface{} { return true })
				}
				step("remove-first", func() interface{} { w.Remove(e, ida); return !w.Has(e, ida) && w.Has(e, idb) })
				step("re-add", func() interface{} {
					w.Add(e, ida)
					p := w.Get(e, ida)
					zero := true
					if sa.sized && sa.tp.Size() >= 1 {
						zero = *(*byte)(p) == 0
					}
					return w.Has(e, ida) && zero
				})
			} else {
				for _, n := range []string{"add-other", "value-kept", "remove-first", "re-add"} {
					n := n
					step(n, func() interface{} { return true })
				}
			}
			step("query", func() interface{} {
				q := w.Query(ecs.All(ida))
				found := false
				for q.Next() {
					if q.Entity() == e {
						found = q.Has(ida) && q.Get(ida) != nil
					}
				}
				return found
			})
			step("mask", func() interface{} { m := w.Mask(e); return m.Get(ida) })
			if sa.isRel {
				step("relation", func() interface{} {
					t := w.NewEntity()
					w.Relations().Set(e, ida, t)
					// the entity now sits in a table of its own target (possibly a retired table put to use again)
					now := map[int]bool{}
					mk := w.Mask(e)
					for j := range regs {
						now[j] = mk.Get(idTable[j])
					}
					got := w.Relations().Get(e, ida) == t && now[a] && profile(e, now)
					w.Relations().Set(e, ida, ecs.Entity{})
					w.RemoveEntity(t)
					return got
				})
			} else {
				step("relation", func() interface{} {
					r := guard(func(r *result) { w.Relations().Get(e, ida) })
					return r.panicked // must panic: not a relation component
				})
			}
			step("remove-entity", func() interface{} { w.RemoveEntity(e); return !w.Alive(e) })
		}
		out.write(map[string]interface{}{"op": "use", "a": a, "b": b, "steps": steps, "created": ok})
	}

	k := 0
	nextShape := func() shapeSpec {
		c := shapeClasses[k%len(shapeClasses)]
		if *inter == 2 {
			c = shapeClasses[rng.Intn(len(shapeClasses))]
		}
		s := mkShape(c, k)
		k++
		return s
	}
	useSome := func() {
		n := len(regs)
		if n == 0 {
			return
		}
		use(n-1, 0)
		if n > 1 {
			use(0, n-1)
			use(n-1, rng.Intn(n))
			use(rng.Intn(n), rng.Intn(n))
		}
	}
	for iter := 0; len(regs) < *target && len(regs) < total && iter < 3*total; iter++ {
		s := nextShape()
		switch {
		case rng.Intn(12) == 0:
			register(s, true)  // in a locked world: must panic and roll back
			register(s, false) // then for real
		case rng.Intn(10) == 0:
			// a rejected registration must leave nothing behind for the type that gets the id next
			register(s, true)
			other := nextShape()
			register(other, false)
			register(s, false)
		default:
			register(s, false)
		}
		if rng.Intn(10) == 0 && len(regs) > 0 {
			register(regs[rng.Intn(len(regs))], false) // known type: same id
		}
		n := len(regs)
		boundary := n%16 == 0 || n%16 == 1 || n%16 == 15 || n >= total-2
		switch *inter {
		case 0:
			if boundary || rng.Intn(8) == 0 {
				useSome()
			}
		case 1:
			if n == *target || n == total {
				useSome()
			}
		default:
			if rng.Intn(3) == 0 {
				useSome()
			}
		}
		if rng.Intn(6) == 0 && len(resRegs) < total {
			registerRes(mkShape("plain", 100000+len(resRegs)))
		}
		if rng.Intn(12) == 0 {
			// World.Reset removes entities and resources, never registrations: every id handed out stays valid
			r := guard(func(r *result) { w.Reset() })
			out.write(map[string]interface{}{"op": "reset", "res": map[string]interface{}{"panic": r.panicked, "msg": r.msg},
				"snap": snapshot()})
		}
	}
	// beyond the limit
	if *target > total {
		for i := 0; i < *target-total; i++ {
			register(nextShape(), false)
		}
		for len(resRegs) < total {
			registerRes(mkShape("plain", 100000+len(resRegs)))
		}
		registerRes(mkShape("plain", 200000))
	}
	useSome()
	// every registered id once more, with the oldest and the newest
	for a := 0; a < len(regs); a++ {
		if *target <= 64 || a%7 == 0 || a >= len(regs)-20 || a < 3 {
			use(a, len(regs)-1-a)
		}
	}
	out.close()
	fmt.Printf("{\"lines\":%d}\n", out.n)
	_ = unsafe.Pointer(nil)
}

var resTable [256]ecs.ResID
var resTableInit bool

func resNum(id ecs.ResID) int {
	if !resTableInit {
		w := ecs.NewWorld()
		for i := 0; i < ecs.MaskTotalBits; i++ {
			resTable[i] = ecs.ResourceTypeID(&w, makeType("filler", 30000+i))
		}
		resTableInit = true
	}
	for i := 0; i < ecs.MaskTotalBits; i++ {
		if resTable[i] == id {
			return i
		}
	}
	return -1
}
