package main

import (
	"github.com/mlange-42/arche/generic"
	"encoding/json"
	"fmt"
	"reflect"
	"runtime"
	"sort"
	"strings"
	"time"
	"unsafe"

	"github.com/mlange-42/arche/ecs"
)

type result struct {
	panicked bool
	msg      string
	ret      int
	handles  [][2]int
}

// guard runs f and converts a panic into a result.
func guard(f func(r *result)) (r result) {
	r.ret = -1
	r.handles = [][2]int{}
	defer func() {
		if p := recover(); p != nil {
			r.panicked = true
			r.msg = fmt.Sprint(p)
			if len(r.msg) > 200 {
				r.msg = r.msg[:200]
			}
		}
	}()
	f(&r)
	return
}

// position logs what a query reports at its current position.
func (x *World) position(q *ecs.Query) map[string]interface{} {
	e := q.Entity()
	m := q.Mask()
	comps := x.maskIDs(&m)
	alt := []interface{}{}
	rawIds := q.Ids()
	ids := idsToInts(rawIds)
	for i := range rawIds {
		rawIds[i] = rawIds[0] // the caller's own copy (see observeEntity)
	}
	if !sameInts(ids, comps) {
		alt = append(alt, map[string]interface{}{"view": "Ids", "ids": ids})
	}
	has := []int{}
	nn := []int{}
	for i := 0; i <= x.maxComp(); i++ {
		id := x.idOf(i)
		if q.Has(id) {
			has = append(has, i)
		}
		if q.Get(id) != nil {
			nn = append(nn, i)
		}
	}
	if !sameInts(has, comps) {
		alt = append(alt, map[string]interface{}{"view": "Has", "ids": has})
	}
	if !sameInts(nn, comps) {
		alt = append(alt, map[string]interface{}{"view": "Get", "ids": nn})
	}
	vals := [][2]int{}
	tgt := [2]int{0, 0}
	rel := -1
	for _, n := range comps {
		c := x.comps[n]
		if c == nil {
			continue
		}
		if c.sized {
			vals = append(vals, [2]int{n, c.decode(q.Get(c.id))})
		}
		if c.isRel && rel < 0 {
			rel = n
			tgt = ent(q.Relation(c.id))
		}
	}
	pos := map[string]interface{}{"e": ent(e), "comps": comps, "alt": alt, "vals": vals, "tgt": tgt, "rel": rel}
	// Query.Relation for anything but the relation component of the current entity must be rejected
	relBad := true
	for _, n := range x.compNums {
		c := x.comps[n]
		if c == nil || n == rel {
			continue
		}
		r := guard(func(r *result) { q.Relation(c.id) })
		relBad = relBad && r.panicked
	}
	pos["relBadPanic"] = relBad
	if x.posExtra != nil {
		for k, v := range x.posExtra(q) {
			pos[k] = v
		}
	}
	return pos
}

// panel exercises a query: Count, EntityAt for every index and out of range, then a walk of Next/Step calls.
// Walk entries: 0 = Next, k>0 = Step(k), -1 = Close. After the walk the query is closed if still open.
func (x *World) panel(q *ecs.Query, walk []int) map[string]interface{} {
	p := map[string]interface{}{}
	cnt := q.Count()
	p["count"] = cnt
	at := [][2]int{}
	atErr := ""
	func() {
		defer func() {
			if r := recover(); r != nil {
				atErr = fmt.Sprint(r)
			}
		}()
		for i := 0; i < cnt && i < 4096; i++ {
			at = append(at, ent(q.EntityAt(i)))
		}
	}()
	p["at"] = at
	p["atErr"] = atErr
	lo := guard(func(r *result) { q.EntityAt(-1) })
	hi := guard(func(r *result) { q.EntityAt(cnt) })
	p["atLoPanic"] = lo.panicked
	p["atHiPanic"] = hi.panicked
	p["count2"] = q.Count()
	// misuse that must be rejected without touching the query: non-positive step sizes
	z := guard(func(r *result) { q.Step(0) })
	n := guard(func(r *result) { q.Step(-3) })
	p["stepNonPosPanic"] = z.panicked && n.panicked
	p["count3"] = q.Count()
	steps := []interface{}{}
	open := true
	walkErr := ""
	func() {
		defer func() {
			if r := recover(); r != nil {
				walkErr = fmt.Sprint(r)
			}
		}()
		i := 0
		for open {
			s := 0
			if i < len(walk) {
				s = walk[i]
			}
			i++
			if s < 0 {
				q.Close()
				open = false
				steps = append(steps, map[string]interface{}{"s": -1, "ok": false, "pos": map[string]interface{}{}})
				break
			}
			var ok bool
			if s == 0 {
				ok = q.Next()
			} else {
				ok = q.Step(s)
			}
			st := map[string]interface{}{"s": s, "ok": ok, "pos": map[string]interface{}{}}
			if ok {
				st["pos"] = x.position(q)
			} else {
				open = false
			}
			steps = append(steps, st)
			if len(steps) > 5000 {
				q.Close()
				open = false
				walkErr = "walk does not terminate"
			}
		}
	}()
	p["steps"] = steps
	p["walkErr"] = walkErr
	return p
}

// qinfo logs Count and EntityAt of a query that stays open.
func (x *World) qinfo(q *ecs.Query) map[string]interface{} {
	cnt := q.Count()
	at := [][2]int{}
	func() {
		defer func() { recover() }()
		for i := 0; i < cnt && i < 4096; i++ {
			at = append(at, ent(q.EntityAt(i)))
		}
	}()
	return map[string]interface{}{"count": cnt, "at": at}
}

func (x *World) addIssued(r *result, e ecs.Entity) {
	x.issued = append(x.issued, e)
	r.handles = append(r.handles, ent(e))
}

// Exec executes one symbolic operation and returns the trace line.
func (x *World) Exec(i int, op Op) map[string]interface{} {
	w := x.w
	x.ensureLate(op)
	x.events = x.events[:0]
	args := map[string]interface{}{}
	line := map[string]interface{}{"i": i, "w": op.W, "op": op.Op, "api": op.Api, "args": args,
		"gen": strings.HasPrefix(op.Api, "generic.")}
	var res result
	var panel map[string]interface{}
	wasLocked := w.IsLocked()
	line["lockedBefore"] = wasLocked
	rawC0, rawZ0 := ecs.VerifRawPtrCopies.Load(), ecs.VerifRawPtrZeros.Load()

	e := x.entity(op.E)
	tgt := x.entity(op.Tgt)
	withVals := op.WithV

	// handles of a batch-result query: entities are only known by iterating it
	finishBatchQuery := func(r *result, q ecs.Query, creation bool) {
		if op.Hold {
			x.queries = append(x.queries, &openQuery{q: q, open: true})
			r.ret = len(x.queries) - 1
			line["qinfo"] = x.qinfo(&x.queries[r.ret].q)
			return
		}
		qq := q
		panel = x.panel(&qq, op.Walk)
	}

	isGeneric := false
	if strings.HasPrefix(op.Api, "generic.") && !strings.HasPrefix(op.Api, "generic.Resource") {
		var handled bool
		res, panel, handled = x.execGeneric(op, line, args)
		isGeneric = handled
	}
	if isGeneric {
		goto done
	}
	switch op.Op {
	case "NewEntity":
		args["ids"] = nonNil(op.Ids)
		res = guard(func(r *result) {
			var en ecs.Entity
			switch op.Api {
			case "Builder.New":
				en = ecs.NewBuilder(w, x.ids(op.Ids)...).New()
			default:
				en = w.NewEntity(x.ids(op.Ids)...)
			}
			x.addIssued(r, en)
		})
	case "NewEntityWith":
		args["ids"] = nonNil(op.Ids)
		args["vals"] = nonNil(op.Vals)
		res = guard(func(r *result) {
			var en ecs.Entity
			switch op.Api {
			case "NonEscaping":
				c := x.comps[op.Ids[0]]
				en = newWithNonEscaping(w, c.id, ptrStaticByNum[op.Ids[0]], int64(op.Vals[0]))
				clobberStack()
			case "BuilderWith.New":
				en = ecs.NewBuilderWith(w, x.components(op.Ids, op.Vals)...).New()
			default:
				en = w.NewEntityWith(x.components(op.Ids, op.Vals)...)
			}
			x.addIssued(r, en)
		})
	case "BuilderNew":
		args["ids"] = nonNil(op.Ids)
		args["vals"] = nonNil(op.Vals)
		args["withVals"] = withVals
		args["hasRel"] = op.HasRel
		args["rel"] = op.Rel
		args["hasTgt"] = op.HasTgt
		args["tgt"] = ent(tgt)
		res = guard(func(r *result) {
			var b *ecs.Builder
			if withVals {
				b = ecs.NewBuilderWith(w, x.components(op.Ids, op.Vals)...)
			} else {
				b = ecs.NewBuilder(w, x.ids(op.Ids)...)
			}
			if op.HasRel {
				b = b.WithRelation(x.idOf(op.Rel))
			}
			var en ecs.Entity
			if op.HasTgt {
				en = b.New(tgt)
			} else {
				en = b.New()
			}
			x.addIssued(r, en)
		})
	case "NewBatch":
		args["ids"] = nonNil(op.Ids)
		args["vals"] = nonNil(op.Vals)
		args["withVals"] = withVals
		args["hasRel"] = op.HasRel
		args["rel"] = op.Rel
		args["hasTgt"] = op.HasTgt
		args["tgt"] = ent(tgt)
		args["n"] = op.N
		args["q"] = op.Q
		args["hold"] = op.Hold
		res = guard(func(r *result) {
			var b *ecs.Builder
			if withVals {
				b = ecs.NewBuilderWith(w, x.components(op.Ids, op.Vals)...)
			} else {
				b = ecs.NewBuilder(w, x.ids(op.Ids)...)
			}
			if op.HasRel {
				b = b.WithRelation(x.idOf(op.Rel))
			}
			if op.Q {
				var q ecs.Query
				if op.HasTgt {
					q = b.NewBatchQ(op.N, tgt)
				} else {
					q = b.NewBatchQ(op.N)
				}
				// The new entities are known from the query only.
				cnt := q.Count()
				for k := 0; k < cnt; k++ {
					x.addIssued(r, q.EntityAt(k))
				}
				finishBatchQuery(r, q, true)
				return
			}
			// Without a query, the new handles are found as the alive entities that were not alive before.
			before := map[ecs.Entity]bool{}
			for _, h := range x.listAll() {
				before[h] = true
			}
			if op.HasTgt {
				b.NewBatch(op.N, tgt)
			} else {
				b.NewBatch(op.N)
			}
			for _, h := range x.listAll() {
				if !before[h] {
					x.addIssued(r, h)
				}
			}
		})
	case "RemoveEntity":
		args["e"] = ent(e)
		res = guard(func(r *result) { w.RemoveEntity(e) })
	case "Exchange":
		args["e"] = ent(e)
		args["add"] = nonNil(op.Add)
		args["rem"] = nonNil(op.Rem)
		args["hasRel"] = op.HasRel
		args["rel"] = op.Rel
		args["hasTgt"] = op.HasTgt
		args["tgt"] = ent(tgt)
		res = guard(func(r *result) {
			switch op.Api {
			case "World.Add":
				w.Add(e, x.ids(op.Add)...)
			case "World.Remove":
				w.Remove(e, x.ids(op.Rem)...)
			case "Builder.Add":
				b := ecs.NewBuilder(w, x.ids(op.Add)...)
				if op.HasRel {
					b = b.WithRelation(x.idOf(op.Rel))
				}
				if op.HasTgt {
					b.Add(e, tgt)
				} else {
					b.Add(e)
				}
			case "Relations.Exchange":
				w.Relations().Exchange(e, x.ids(op.Add), x.ids(op.Rem), x.idOf(op.Rel), tgt)
			default:
				w.Exchange(e, x.ids(op.Add), x.ids(op.Rem))
			}
		})
	case "Assign":
		args["e"] = ent(e)
		args["ids"] = nonNil(op.Ids)
		args["vals"] = nonNil(op.Vals)
		args["hasRel"] = op.HasRel
		args["rel"] = op.Rel
		args["hasTgt"] = op.HasTgt
		args["tgt"] = ent(tgt)
		res = guard(func(r *result) {
			switch op.Api {
			case "NonEscaping":
				c := x.comps[op.Ids[0]]
				assignNonEscaping(w, e, c.id, ptrStaticByNum[op.Ids[0]], int64(op.Vals[0]))
				clobberStack()
			case "BuilderWith.Add":
				b := ecs.NewBuilderWith(w, x.components(op.Ids, op.Vals)...)
				if op.HasRel {
					b = b.WithRelation(x.idOf(op.Rel))
				}
				if op.HasTgt {
					b.Add(e, tgt)
				} else {
					b.Add(e)
				}
			default:
				w.Assign(e, x.components(op.Ids, op.Vals)...)
			}
		})
	case "Set":
		args["e"] = ent(e)
		args["c"] = op.C
		args["v"] = op.V
		res = guard(func(r *result) {
			c := x.comps[op.C]
			switch op.Api {
			case "NonEscaping":
				k, ok := ptrStaticByNum[op.C]
				if !ok || c == nil || c.kind != "ptr" {
					panic("verif: NonEscaping needs a static pointer component")
				}
				setNonEscaping(w, e, c.id, k, int64(op.V))
				clobberStack()
			case "Get":
				p := w.Get(e, x.idOf(op.C))
				if p == nil {
					panic("verif: Get returned nil, nothing to write")
				}
				c.encode(p, op.V)
			default:
				var iface interface{}
				if c != nil {
					iface, _ = c.newValue(op.V)
				} else {
					iface = &struct{ F uint16 }{}
				}
				p := w.Set(e, x.idOf(op.C), iface)
				if !w.Alive(e) {
					return // accepted for a stale handle: recorded as "no panic"; no comparison call may mask that
				}
				if c != nil && c.sized && p != w.Get(e, c.id) {
					panic("verif: Set returned a pointer different from Get")
				}
			}
		})
	case "SetRelation":
		args["e"] = ent(e)
		args["rel"] = op.Rel
		args["tgt"] = ent(tgt)
		res = guard(func(r *result) { w.Relations().Set(e, x.idOf(op.Rel), tgt) })
	case "BatchExchange":
		f, fd := x.buildFilter(op.F)
		args["f"] = fd
		args["add"] = nonNil(op.Add)
		args["rem"] = nonNil(op.Rem)
		args["hasRel"] = op.HasRel
		args["rel"] = op.Rel
		args["tgt"] = ent(tgt)
		args["q"] = op.Q
		args["hold"] = op.Hold
		res = guard(func(r *result) {
			add, rem := x.ids(op.Add), x.ids(op.Rem)
			if op.Q {
				var q ecs.Query
				switch op.Api {
				case "Batch.AddQ":
					q = w.Batch().AddQ(f, add...)
				case "Batch.RemoveQ":
					q = w.Batch().RemoveQ(f, rem...)
				case "Relations.ExchangeBatchQ":
					q = w.Relations().ExchangeBatchQ(f, add, rem, x.idOf(op.Rel), tgt)
				default:
					q = w.Batch().ExchangeQ(f, add, rem)
				}
				finishBatchQuery(r, q, false)
				return
			}
			switch op.Api {
			case "Batch.Add":
				r.ret = w.Batch().Add(f, add...)
			case "Batch.Remove":
				r.ret = w.Batch().Remove(f, rem...)
			case "Relations.ExchangeBatch":
				r.ret = w.Relations().ExchangeBatch(f, add, rem, x.idOf(op.Rel), tgt)
			default:
				r.ret = w.Batch().Exchange(f, add, rem)
			}
		})
	case "BatchSetRelation":
		f, fd := x.buildFilter(op.F)
		args["f"] = fd
		args["rel"] = op.Rel
		args["tgt"] = ent(tgt)
		args["q"] = op.Q
		args["hold"] = op.Hold
		res = guard(func(r *result) {
			if op.Q {
				var q ecs.Query
				if op.Api == "Relations.SetBatchQ" {
					q = w.Relations().SetBatchQ(f, x.idOf(op.Rel), tgt)
				} else {
					q = w.Batch().SetRelationQ(f, x.idOf(op.Rel), tgt)
				}
				finishBatchQuery(r, q, false)
				return
			}
			if op.Api == "Relations.SetBatch" {
				r.ret = w.Relations().SetBatch(f, x.idOf(op.Rel), tgt)
			} else {
				r.ret = w.Batch().SetRelation(f, x.idOf(op.Rel), tgt)
			}
		})
	case "BatchRemove":
		f, fd := x.buildFilter(op.F)
		args["f"] = fd
		res = guard(func(r *result) { r.ret = w.Batch().RemoveEntities(f) })
	case "Panel":
		f, fd := x.buildFilter(op.F)
		args["f"] = fd
		args["walk"] = nonNil(op.Walk)
		res = guard(func(r *result) {
			q := w.Query(f)
			panel = x.panel(&q, op.Walk)
		})
	case "OpenQuery":
		f, fd := x.buildFilter(op.F)
		args["f"] = fd
		res = guard(func(r *result) {
			q := w.Query(f)
			x.queries = append(x.queries, &openQuery{q: q, open: true, filter: op.F})
			r.ret = len(x.queries) - 1
			line["qinfo"] = x.qinfo(&x.queries[r.ret].q)
		})
	case "QNext", "QStep", "QClose", "QCount":
		args["qi"] = op.Qi
		args["n"] = op.N
		line["pos"] = map[string]interface{}{}
		res = guard(func(r *result) {
			oq := x.queries[op.Qi]
			switch op.Op {
			case "QNext":
				ok := oq.q.Next()
				r.ret = b2i(ok)
				if ok {
					line["pos"] = x.position(&oq.q)
				}
			case "QStep":
				ok := oq.q.Step(op.N)
				r.ret = b2i(ok)
				if ok {
					line["pos"] = x.position(&oq.q)
				}
			case "QClose":
				oq.q.Close()
			case "QCount":
				r.ret = oq.q.Count()
			}
		})
	case "Register":
		f, fd := x.buildFilter(op.F)
		args["f"] = fd
		res = guard(func(r *result) {
			cf := w.Cache().Register(f)
			x.regs = append(x.regs, &cf)
			x.regOrig = append(x.regOrig, f)
			x.regSpec = append(x.regSpec, op.F)
			x.regLive = append(x.regLive, true)
			r.ret = len(x.regs) - 1
		})
	case "Unregister":
		args["reg"] = op.Reg
		line["sameFilter"] = false
		res = guard(func(r *result) {
			got := w.Cache().Unregister(x.regs[op.Reg])
			line["sameFilter"] = sameFilter(got, x.regOrig[op.Reg])
			x.regLive[op.Reg] = false
		})
	case "Reset":
		res = guard(func(r *result) {
			w.Reset()
			x.epoch = len(x.issued)
			for k := range x.resVals {
				delete(x.resVals, k)
			}
		})
	case "Read":
		args["e"] = ent(e)
		args["c"] = op.C
		res = guard(func(r *result) {
			id := x.idOf(op.C)
			switch op.Api {
			case "Has":
				r.ret = b2i(w.Has(e, id))
			case "Mask":
				m := w.Mask(e)
				r.ret = len(x.maskIDs(&m))
			case "Ids":
				r.ret = len(w.Ids(e))
			case "Relations.Get":
				r.handles = append(r.handles, ent(w.Relations().Get(e, id)))
			case "Alive":
				r.ret = b2i(w.Alive(e))
			default:
				r.ret = b2i(w.Get(e, id) != nil)
			}
		})
	case "ResAdd":
		args["r"] = op.R
		res = guard(func(r *result) {
			x.resSeq++
			tk := x.resSeq
			var val interface{}
			route := op.Api
			if op.R > 3 {
				route = "Resources.Add"
			}
			switch route {
			case "generic.Resource.Add":
				switch op.R {
				case 0:
					v := &resT0{tk}
					g := x.gres0()
					g.Add(v)
					val = v
				case 1:
					v := &resT1{tk}
					g := x.gres1()
					g.Add(v)
					val = v
				case 2:
					v := &resT2{tk}
					g := x.gres2()
					g.Add(v)
					val = v
				case 3:
					v := &resT3{tk}
					g := x.gres3()
					g.Add(v)
					val = v
				}
			case "ecs.AddResource":
				switch op.R {
				case 0:
					v := &resT0{tk}
					ecs.AddResource(w, v)
					val = v
				case 1:
					v := &resT1{tk}
					ecs.AddResource(w, v)
					val = v
				case 2:
					v := &resT2{tk}
					ecs.AddResource(w, v)
					val = v
				case 3:
					v := &resT3{tk}
					ecs.AddResource(w, v)
					val = v
				}
			default:
				switch op.R {
				case 0:
					val = &resT0{tk}
				case 1:
					val = &resT1{tk}
				case 2:
					val = &resT2{tk}
				case 3:
					val = &resT3{tk}
				default:
					val = &resToken{tk}
				}
				w.Resources().Add(x.resIDs[op.R], val)
			}
			x.resVals[op.R] = val
			r.ret = tk
		})
	case "ResRemove":
		args["r"] = op.R
		res = guard(func(r *result) {
			if op.Api == "generic.Resource.Remove" && op.R <= 3 {
				switch op.R {
				case 0:
					g := x.gres0()
					g.Remove()
				case 1:
					g := x.gres1()
					g.Remove()
				case 2:
					g := x.gres2()
					g.Remove()
				case 3:
					g := x.gres3()
					g.Remove()
				}
			} else {
				w.Resources().Remove(x.resIDs[op.R])
			}
			delete(x.resVals, op.R)
		})
	case "ResLazy":
		// first by-type lookup of a resource type the world does not know yet: registers it (in any lock state),
		// the resource itself is absent. ret: -1 = absent as it must be, 1 = something was there
		args["r"] = op.R
		res = guard(func(r *result) {
			x.lazyRes++
			r.ret = -1
			present := false
			switch op.R {
			case 0:
				present = lazyRes[resL0](w, op.Api)
			case 1:
				present = lazyRes[resL1](w, op.Api)
			case 2:
				present = lazyRes[resL2](w, op.Api)
			case 3:
				present = lazyRes[resL3](w, op.Api)
			case 4:
				present = lazyRes[resL4](w, op.Api)
			default:
				present = lazyRes[resL5](w, op.Api)
			}
			if present {
				r.ret = 1
			}
		})
	case "ResGet":
		// ret: token of the returned value, -1 for nil; same: the exact pointer that was added
		args["r"] = op.R
		line["same"] = false
		res = guard(func(r *result) {
			var got interface{}
			route := op.Api
			if op.R > 3 {
				// only the first four resource types have static Go types for the generic routes
				if route == "generic.Resource.Has" || route == "Resources.Has" {
					route = "Resources.Has"
				} else {
					route = "Resources.Get"
				}
			}
			isNil := false
			switch route {
			case "generic.Resource.Get":
				switch op.R {
				case 0:
					g := x.gres0()
					v := g.Get()
					got, isNil = v, v == nil
				case 1:
					g := x.gres1()
					v := g.Get()
					got, isNil = v, v == nil
				case 2:
					g := x.gres2()
					v := g.Get()
					got, isNil = v, v == nil
				case 3:
					g := x.gres3()
					v := g.Get()
					got, isNil = v, v == nil
				}
			case "ecs.GetResource":
				switch op.R {
				case 0:
					v := ecs.GetResource[resT0](w)
					got, isNil = v, v == nil
				case 1:
					v := ecs.GetResource[resT1](w)
					got, isNil = v, v == nil
				case 2:
					v := ecs.GetResource[resT2](w)
					got, isNil = v, v == nil
				case 3:
					v := ecs.GetResource[resT3](w)
					got, isNil = v, v == nil
				}
			case "generic.Resource.Has":
				has := false
				switch op.R {
				case 0:
					g := x.gres0()
					has = g.Has()
				case 1:
					g := x.gres1()
					has = g.Has()
				case 2:
					g := x.gres2()
					has = g.Has()
				case 3:
					g := x.gres3()
					has = g.Has()
				}
				r.ret = b2i(has)
				return
			case "Resources.Has":
				r.ret = b2i(w.Resources().Has(x.resIDs[op.R]))
				return
			default:
				got = w.Resources().Get(x.resIDs[op.R])
				isNil = got == nil
			}
			if isNil {
				r.ret = -1
				return
			}
			r.ret = got.(tokener).tok()
			line["same"] = x.resVals[op.R] == got
		})
	case "AddListener":
		args["s"] = op.L.S
		args["c"] = nonNil(op.L.C)
		args["hasc"] = op.L.HasC && len(op.L.C) > 0
		res = guard(func(r *result) { x.addSub(*op.L) })
	case "Dump":
		line["dump"] = map[string]interface{}{"ok": false}
		line["jsonOK"] = false
		res = guard(func(r *result) {
			d := w.DumpEntities()
			line["dump"] = dumpRec(&d)
			d2, ok := dumpRoundTrip(&d)
			line["jsonOK"] = ok && reflect.DeepEqual(dumpRec(&d), dumpRec(d2))
			x.lastDump = d2
			// every other dump is kept as the object DumpEntities returned (no JSON in between): it is a snapshot,
			// whatever the dumped world does afterwards
			x.dumps++
			if (x.dumps+len(x.issued))%2 == 0 {
				x.lastDump = &d
			}
		})
	case "Load":
		// fault action (or legal on a fresh/reset world): load the last dump of this world
		args["fresh"] = false
		res = guard(func(r *result) {
			d := x.lastDump
			if d == nil {
				dd := w.DumpEntities()
				d = &dd
			}
			args["dump"] = dumpRec(d)
			w.LoadEntities(d)
		})
	case "RegisterTypes":
		// register further (unused) component types while tables exist; no observable effect
		args["n"] = op.N
		res = guard(func(r *result) {
			for k := 0; k < op.N; k++ {
				x.lateTypes++
				ecs.TypeID(w, makeType("filler", 40000+x.lateTypes))
			}
			r.ret = len(ecs.ComponentIDs(w))
		})
	case "MoveStress":
		// Amplification for C14: move every entity that carries pointer components back and forth between two
		// tables many times (net effect: none) while collections run concurrently. The listener is detached.
		args["n"] = op.N
		res = guard(func(r *result) {
			spare := -1
			for _, n := range x.compNums {
				if c := x.comps[n]; !c.ptr && !c.isRel {
					spare = n
				}
			}
			if spare < 0 {
				return
			}
			if x.lst != nil || x.disp != nil {
				w.SetListener(nil)
			}
			moves := 0
			for round := 0; round < op.N; round++ {
				for _, e := range x.issued[x.epoch:] {
					if !w.Alive(e) || w.Has(e, x.idOf(spare)) {
						continue
					}
					m := w.Mask(e)
					hasPtr := false
					for _, n := range x.maskIDs(&m) {
						hasPtr = hasPtr || (x.comps[n] != nil && x.comps[n].ptr)
					}
					if !hasPtr {
						continue
					}
					w.Add(e, x.idOf(spare))
					w.Remove(e, x.idOf(spare))
					moves += 2
				}
			}
			if x.disp != nil {
				w.SetListener(x.disp)
			} else if x.lst != nil {
				w.SetListener(x.lst)
			}
			r.ret = moves
		})
	case "GCCheck":
		// Release check: payloads that no component references any more must become collectable.
		res = guard(func(r *result) { line["gc"] = x.gcCheck() })
	case "GC":
		runtime.GC()
	default:
		panic("unknown op " + op.Op)
	}

done:
	line["res"] = map[string]interface{}{"panic": res.panicked, "cls": clsOf(res), "msg": res.msg, "ret": res.ret, "handles": res.handles}
	// untyped byte copies / zeroings that hit pointer-carrying columns during this call (verif hook)
	line["raw"] = map[string]interface{}{"copies": int(ecs.VerifRawPtrCopies.Load() - rawC0), "zeros": int(ecs.VerifRawPtrZeros.Load() - rawZ0)}
	evs := make([]interface{}, len(x.events))
	for k, ev := range x.events {
		evs[k] = ev
	}
	line["events"] = evs
	if panel != nil {
		line["panel"] = panel
	}
	if !x.h.NoObs {
		line["obs"] = x.observe()
	}
	if x.h.Sweep {
		line["sweep"] = x.sweep()
	}
	if x.h.Shape {
		line["shape"] = w.VerifShape()
	}
	an := w.VerifCheckInvariants()
	if an == nil {
		an = []string{}
	}
	line["anom"] = an
	_ = unsafe.Pointer(nil)
	return line
}

func clsOf(r result) string {
	if !r.panicked {
		return ""
	}
	return panicClass(r.msg)
}

func b2i(b bool) int {
	if b {
		return 1
	}
	return 0
}

func (x *World) listAll() []ecs.Entity {
	res := []ecs.Entity{}
	q := x.w.Query(ecs.All())
	for q.Next() {
		res = append(res, q.Entity())
		if len(res) > maxQueryLen {
			q.Close()
			break
		}
	}
	return res
}

// sameFilter reports whether an unregistered filter is the filter object that was registered.
func sameFilter(a, b ecs.Filter) (same bool) {
	defer func() {
		if recover() != nil {
			same = false
		}
	}()
	return a == b
}

// dumpRoundTrip sends an entity dump through encoding/json.
func dumpRoundTrip(d *ecs.EntityDump) (*ecs.EntityDump, bool) {
	b, err := json.Marshal(d)
	if err != nil {
		return d, false
	}
	var d2 ecs.EntityDump
	if err := json.Unmarshal(b, &d2); err != nil {
		return d, false
	}
	return &d2, true
}

// gcCheck forces collections and reports payload tokens that are neither referenced by a component
// nor finalized, and were in that state at the previous checkpoint already.
func (x *World) gcCheck() map[string]interface{} {
	referenced := map[int64]bool{}
	for _, e := range x.issued[x.epoch:] {
		if !x.w.Alive(e) {
			continue
		}
		m := x.w.Mask(e)
		for _, n := range x.maskIDs(&m) {
			c := x.comps[n]
			if c == nil || !c.ptr {
				continue
			}
			v := c.decode(x.w.Get(e, c.id))
			if v > 0 {
				referenced[int64(v)] = true
				if c.kind == "slice" {
					referenced[int64(v)+1] = true
				}
			}
		}
	}
	for i := 0; i < 4; i++ {
		runtime.GC()
		time.Sleep(2 * time.Millisecond)
	}
	payMu.Lock()
	pendingNow := map[int64]bool{}
	created, finalized := 0, 0
	for tok, n := range payCreated {
		created += n
		finalized += payFinalized[tok]
		if !referenced[tok] && payFinalized[tok] < n {
			pendingNow[tok] = true
		}
	}
	payMu.Unlock()
	leaked := []int{}
	for tok := range pendingNow {
		if x.pendingPrev[tok] {
			leaked = append(leaked, int(tok))
		}
	}
	sort.Ints(leaked)
	x.pendingPrev = pendingNow
	return map[string]interface{}{"created": created, "finalized": finalized, "referenced": len(referenced),
		"pending": len(pendingNow), "leaked": leaked, "rawPtrCopies": int(ecs.VerifRawPtrCopies.Load())}
}

// lazyRes looks a resource type up by type through one of the three typed entry points.
func lazyRes[T any](w *ecs.World, api string) bool {
	switch api {
	case "ecs.ResourceID":
		id := ecs.ResourceID[T](w)
		return w.Resources().Has(id)
	case "generic.NewResource":
		g := generic.NewResource[T](w)
		return g.Has() || g.Get() != nil
	default:
		return ecs.GetResource[T](w) != nil
	}
}
