package main

import (
	"fmt"
	"reflect"
	"sort"
	"strings"
	"sync"

	"github.com/mlange-42/arche/ecs"
	"github.com/mlange-42/arche/ecs/event"
	"github.com/mlange-42/arche/filter"
	"github.com/mlange-42/arche/generic"
	"github.com/mlange-42/arche/listener"
)

// FSpec is a symbolic filter.
type FSpec struct {
	K    string   `json:"k"`              // all | mf | excl | rel | and | or | xor | not | any | noneof | anynot | cached
	Ids  []int    `json:"ids,omitempty"`  // included / listed ids
	Exc  []int    `json:"exc,omitempty"`  // excluded ids (mf)
	Subs []*FSpec `json:"subs,omitempty"` // sub-filters (rel: 1, and/or/xor: 2, not: 1)
	Tgt  int      `json:"tgt"`            // entity ref of the relation target (rel); -1 = zero entity
	Reg  int      `json:"reg"`            // registration index (cached)
}

// Header configures a world.
type Header struct {
	Name      string     `json:"name"`
	CapInc    int        `json:"capInc"`
	RelCapInc int        `json:"relCapInc"`
	Comps     []CompSpec `json:"comps"`
	NRes      int        `json:"nres"`
	Listener  bool       `json:"listener"`
	LS        int        `json:"ls"`            // subscription bits of the listener
	LC        []int      `json:"lc"`            // component restriction of the listener
	LHasC     bool       `json:"lhasc"`         // whether a component restriction is given
	Probe     bool       `json:"probe"`         // listener tries a structural operation when the world is locked at delivery
	Shape     bool       `json:"shape"`         // log hidden-state digest
	Sweep     bool       `json:"sweep"`         // sweep registered filters after every step
	NoObs     bool       `json:"noobs"`         // skip the full observation (large worlds)
	GCEvery   int        `json:"gcEvery"`       // force GC every n ops (0 = never)
	Twin      string     `json:"twin"`          // "" | "reset" | "load": fork a twin world at Reset / Dump
	Dispatch  []LSpec    `json:"dispatch"`      // sub-listeners of a listener.Dispatch (instead of the single listener)
	TrackPay  bool       `json:"trackPayloads"` // account payload objects with finalizers (C14)
	Generic   bool       `json:"generic"`       // register the static component types of the generic API adapters (ids 0..12)
	Ops       []Op       `json:"ops"`
}

func (x *World) gres0() *generic.Resource[resT0] {
	if x.gr0 == nil {
		g := generic.NewResource[resT0](x.w)
		x.gr0 = &g
	}
	return x.gr0
}

func (x *World) gres1() *generic.Resource[resT1] {
	if x.gr1 == nil {
		g := generic.NewResource[resT1](x.w)
		x.gr1 = &g
	}
	return x.gr1
}

func (x *World) gres2() *generic.Resource[resT2] {
	if x.gr2 == nil {
		g := generic.NewResource[resT2](x.w)
		x.gr2 = &g
	}
	return x.gr2
}

func (x *World) gres3() *generic.Resource[resT3] {
	if x.gr3 == nil {
		g := generic.NewResource[resT3](x.w)
		x.gr3 = &g
	}
	return x.gr3
}

// LSpec describes a listener: subscription bits and component restriction.
type LSpec struct {
	S    int   `json:"s"`
	C    []int `json:"c"`
	HasC bool  `json:"hasc"`
}

// Op is one symbolic operation.
type Op struct {
	Op     string `json:"op"`
	Api    string `json:"api,omitempty"`
	Ids    []int  `json:"ids,omitempty"`
	Vals   []int  `json:"vals,omitempty"`
	WithV  bool   `json:"withVals,omitempty"` // builder created with component values (NewBuilderWith)
	Add    []int  `json:"add,omitempty"`
	Rem    []int  `json:"rem,omitempty"`
	E      int    `json:"e"`
	Tgt    int    `json:"tgt"`
	HasRel bool   `json:"hasRel,omitempty"`
	Rel    int    `json:"rel"`
	HasTgt bool   `json:"hasTgt,omitempty"`
	N      int    `json:"n,omitempty"`
	Q      bool   `json:"q,omitempty"`
	Hold   bool   `json:"hold,omitempty"`
	F      *FSpec `json:"f,omitempty"`
	C      int    `json:"c"`
	V      int    `json:"v"`
	Walk   []int  `json:"walk,omitempty"`
	Qi     int    `json:"qi"`
	Reg    int    `json:"reg"`
	R      int    `json:"r"`
	W      int    `json:"w"`            // world index (twin schedules)
	L      *LSpec `json:"l,omitempty"`  // AddListener
	Ar     int    `json:"ar,omitempty"` // arity of the generic Map / Filter
}

type openQuery struct {
	q      ecs.Query
	open   bool
	filter *FSpec
}

type resToken struct {
	Token int
}

// Static resource types for the generic resource API routes.
// resource types that are NOT registered when a world is created: first seen through a by-type lookup
type resL0 struct{ Token int }
type resL1 struct{ Token int }
type resL2 struct{ Token int }
type resL3 struct{ Token int }
type resL4 struct{ Token int }
type resL5 struct{ Token int }

type resT0 struct{ Token int }
type resT1 struct{ Token int }
type resT2 struct{ Token int }
type resT3 struct{ Token int }

type tokener interface{ tok() int }

func (r *resToken) tok() int { return r.Token }
func (r *resT0) tok() int    { return r.Token }
func (r *resT1) tok() int    { return r.Token }
func (r *resT2) tok() int    { return r.Token }
func (r *resT3) tok() int    { return r.Token }

// World wraps a real ecs.World with the bookkeeping needed to execute symbolic schedules.
type World struct {
	h           Header
	w           *ecs.World
	comps       map[int]*compInfo
	compNums    []int
	issued      []ecs.Entity
	epoch       int // index of the first handle issued since the last Reset
	regs        []*ecs.CachedFilter
	regOrig     []ecs.Filter
	regSpec     []*FSpec
	regLive     []bool
	queries     []*openQuery
	resIDs      []ecs.ResID
	resVals     map[int]interface{}
	resSeq      int
	events      []map[string]interface{}
	lst         *recListener
	disp        *listener.Dispatch
	subs        []LSpec
	gfs         []*gfState
	gexSeq      int
	lateDone    bool // generic worlds: component 13 (gc13) has been registered
	gexKeep     map[int]*generic.Exchange
	lazyRes     int // number of lazily registered resource types used so far
	posExtra    func(q *ecs.Query) map[string]interface{}
	valSeq      int
	lastDump    *ecs.EntityDump
	dumps    int
	pendingPrev map[int64]bool
	lateTypes   int
	// generic resource mappers are created once per world and re-used, as user code does
	gr0 *generic.Resource[resT0]
	gr1 *generic.Resource[resT1]
	gr2 *generic.Resource[resT2]
	gr3 *generic.Resource[resT3]
}

type recListener struct {
	W     *World
	S     event.Subscription
	C     ecs.Mask
	HasC  bool
	probe bool
	sub   int
}

func (l *recListener) Subscriptions() event.Subscription { return l.S }
func (l *recListener) Components() *ecs.Mask {
	if l.HasC {
		return &l.C
	}
	return nil
}

func ent(e ecs.Entity) [2]int {
	return [2]int{int(e.ID()), int(e.Generation())}
}

func (x *World) maskIDs(m *ecs.Mask) []int {
	res := []int{}
	for i := 0; i < ecs.MaskTotalBits; i++ {
		if m.Get(x.idOf(i)) {
			res = append(res, i)
		}
	}
	return res
}

func idsToInts(ids []ecs.ID) []int {
	res := []int{}
	for _, id := range ids {
		res = append(res, idNum(id))
	}
	return res
}

func (l *recListener) Notify(w *ecs.World, e ecs.EntityEvent) {
	x := l.W
	rec := map[string]interface{}{
		"sub":        l.sub,
		"e":          ent(e.Entity),
		"added":      x.maskIDs(&e.Added),
		"removed":    x.maskIDs(&e.Removed),
		"addedIDs":   idsToInts(e.AddedIDs),
		"removedIDs": idsToInts(e.RemovedIDs),
		"oldRel":     -1,
		"newRel":     -1,
		"oldTgt":     ent(e.OldTarget),
		"bits":       int(e.EventTypes),
		"locked":     w.IsLocked(),
	}
	if e.OldRelation != nil {
		rec["oldRel"] = idNum(*e.OldRelation)
	}
	if e.NewRelation != nil {
		rec["newRel"] = idNum(*e.NewRelation)
	}
	alive := false
	func() {
		defer func() { recover() }()
		alive = w.Alive(e.Entity)
	}()
	rec["alive"] = alive
	rec["mask"] = []int{}
	rec["vals"] = [][2]int{}
	rec["tgtNow"] = [2]int{0, 0}
	if alive {
		func() {
			defer func() {
				if r := recover(); r != nil {
					rec["inspectPanic"] = fmt.Sprint(r)
				}
			}()
			o := x.observeEntity(e.Entity)
			rec["mask"] = o["comps"]
			rec["vals"] = o["vals"]
			rec["tgtNow"] = o["tgt"]
		}()
	}
	probe := "skip"
	if l.probe && w.IsLocked() {
		probe = "ok"
		func() {
			defer func() {
				if r := recover(); r != nil {
					probe = "panic"
				}
			}()
			w.NewEntity()
		}()
	}
	rec["probe"] = probe
	x.events = append(x.events, rec)
}

var idTable [256]ecs.ID
var idTableInit bool

// idNum recovers the numeric value of an ecs.ID (there is no accessor in the public API).
func idNum(id ecs.ID) int {
	for i := 0; i < ecs.MaskTotalBits; i++ {
		if idTable[i] == id {
			return i
		}
	}
	return -1
}

func (x *World) idOf(n int) ecs.ID {
	return idTable[n&0xff]
}

// initIDTable fills the table of all ecs.ID values by registering types in a scratch world.
var idTableMu sync.Mutex

func initIDTable() {
	idTableMu.Lock()
	defer idTableMu.Unlock()
	if idTableInit {
		return
	}
	w := ecs.NewWorld()
	for i := 0; i < ecs.MaskTotalBits; i++ {
		idTable[i] = ecs.TypeID(&w, makeType("filler", 10000+i))
	}
	idTableInit = true
}

// NewWorld creates and configures a world from a header.
func NewWorld(h Header) *World {
	initIDTable()
	if h.CapInc < 1 {
		h.CapInc = 128
	}
	cfg := ecs.NewConfig().WithCapacityIncrement(h.CapInc).WithRelationCapacityIncrement(h.RelCapInc)
	w := ecs.NewWorld(cfg)
	x := &World{h: h, w: &w, comps: map[int]*compInfo{}, resVals: map[int]interface{}{}}
	if h.Generic {
		ids := registerGC(&w)
		for i, id := range ids {
			if idNum(id) != i {
				panic("generic component types not registered at ids 0..12")
			}
			k := gcKinds[i]
			x.comps[i] = &compInfo{id: id, num: i, kind: k, tp: gcComps[i], isRel: kindIsRel(k), sized: kindSized(k)}
			x.compNums = append(x.compNums, i)
		}
		// component 13: declared (the specification knows it from the start), registered on first ID-based use
		x.comps[lateComp] = &compInfo{id: idTable[lateComp], num: lateComp, kind: "u64", tp: reflect.TypeOf(gc13{}), isRel: false, sized: true}
		h.Comps = nil
	}
	specs := append([]CompSpec{}, h.Comps...)
	sort.Slice(specs, func(i, j int) bool { return specs[i].ID < specs[j].ID })
	next := 0
	for _, cs := range specs {
		for next < cs.ID {
			ecs.TypeID(&w, makeType("filler", next))
			next++
		}
		key := cs.ID
		if cs.Key > 0 {
			key = cs.Key - 1
		}
		tp := makeType(cs.Kind, key)
		id := ecs.TypeID(&w, tp)
		if idNum(id) != cs.ID {
			panic(fmt.Sprintf("component registered at %d instead of %d", idNum(id), cs.ID))
		}
		x.comps[cs.ID] = &compInfo{id: id, num: cs.ID, kind: cs.Kind, tp: tp, isRel: kindIsRel(cs.Kind), sized: kindSized(cs.Kind), ptr: kindPtr(cs.Kind)}
		x.compNums = append(x.compNums, cs.ID)
		next = cs.ID + 1
	}
	for i := 0; i < h.NRes; i++ {
		switch i {
		case 0:
			x.resIDs = append(x.resIDs, ecs.ResourceID[resT0](&w))
		case 1:
			x.resIDs = append(x.resIDs, ecs.ResourceID[resT1](&w))
		case 2:
			x.resIDs = append(x.resIDs, ecs.ResourceID[resT2](&w))
		case 3:
			x.resIDs = append(x.resIDs, ecs.ResourceID[resT3](&w))
		default:
			x.resIDs = append(x.resIDs, ecs.ResourceTypeID(&w, reflect.PointerTo(makeType("filler", 20000+i)).Elem()))
		}
	}
	if len(h.Dispatch) > 0 {
		// the first half of the sub-listeners goes to the constructor, the rest is added one by one
		first := []ecs.Listener{}
		nf := len(h.Dispatch) / 2
		for _, ls := range h.Dispatch[:nf] {
			first = append(first, x.newSub(ls))
		}
		d := listener.NewDispatch(first...)
		x.disp = &d
		for _, ls := range h.Dispatch[nf:] {
			x.addSub(ls)
		}
		w.SetListener(x.disp)
	} else if h.Listener {
		l := &recListener{W: x, S: event.Subscription(h.LS), HasC: h.LHasC, probe: h.Probe}
		for _, c := range h.LC {
			l.C.Set(x.idOf(c), true)
		}
		x.lst = l
		w.SetListener(l)
	}
	return x
}

// newSub makes a recording callback listener (sub-listener number len(x.subs)).
func (x *World) newSub(ls LSpec) ecs.Listener {
	sub := len(x.subs)
	x.subs = append(x.subs, ls)
	rl := &recListener{W: x, sub: sub}
	var cb listener.Callback
	if ls.HasC && len(ls.C) > 0 {
		cb = listener.NewCallback(rl.Notify, event.Subscription(ls.S), x.ids(ls.C)...)
	} else {
		cb = listener.NewCallback(rl.Notify, event.Subscription(ls.S))
	}
	return &cb
}

// addSub adds a recording callback listener to the dispatch listener.
func (x *World) addSub(ls LSpec) {
	x.disp.AddListener(x.newSub(ls))
}

func (x *World) ids(nums []int) []ecs.ID {
	if nums == nil {
		return nil
	}
	res := make([]ecs.ID, len(nums))
	for i, n := range nums {
		res[i] = x.idOf(n)
	}
	return res
}

func (x *World) entity(ref int) ecs.Entity {
	if ref < 0 || ref >= len(x.issued) {
		return ecs.Entity{}
	}
	return x.issued[ref]
}

// components builds ecs.Component values for ids with values.
func (x *World) components(nums []int, vals []int) []ecs.Component {
	res := make([]ecs.Component, len(nums))
	for i, n := range nums {
		c := x.comps[n]
		v := 0
		if i < len(vals) {
			v = vals[i]
		}
		if c == nil {
			// unknown component: use a filler value
			res[i] = ecs.Component{ID: x.idOf(n), Comp: &struct{ F uint16 }{}}
			continue
		}
		iface, _ := c.newValue(v)
		res[i] = ecs.Component{ID: c.id, Comp: iface}
	}
	return res
}

// buildFilter creates the real filter for a symbolic one. Returns the filter and a resolved description.
func (x *World) buildFilter(f *FSpec) (ecs.Filter, map[string]interface{}) {
	d := map[string]interface{}{"k": f.K, "ids": nonNil(f.Ids), "exc": nonNil(f.Exc), "tgt": [2]int{0, 0}, "reg": f.Reg, "subs": []interface{}{}}
	switch f.K {
	case "all":
		m := ecs.All(x.ids(f.Ids)...)
		return m, d
	case "mf":
		m := ecs.All(x.ids(f.Ids)...)
		mf := m.Without(x.ids(f.Exc)...)
		return &mf, d
	case "excl":
		m := ecs.All(x.ids(f.Ids)...)
		mf := m.Exclusive()
		return &mf, d
	case "any":
		return filter.Any(x.ids(f.Ids)...), d
	case "noneof":
		return filter.NoneOf(x.ids(f.Ids)...), d
	case "anynot":
		return filter.AnyNot(x.ids(f.Ids)...), d
	case "rel":
		inner, di := x.buildFilter(f.Subs[0])
		t := x.entity(f.Tgt)
		d["tgt"] = ent(t)
		d["subs"] = []interface{}{di}
		rf := ecs.NewRelationFilter(inner, t)
		return &rf, d
	case "and", "or", "xor":
		l, dl := x.buildFilter(f.Subs[0])
		r, dr := x.buildFilter(f.Subs[1])
		d["subs"] = []interface{}{dl, dr}
		switch f.K {
		case "and":
			return filter.And(l, r), d
		case "or":
			return filter.Or(l, r), d
		}
		return filter.XOr(l, r), d
	case "not":
		l, dl := x.buildFilter(f.Subs[0])
		d["subs"] = []interface{}{dl}
		return filter.Not(l), d
	case "cached":
		if f.Reg >= 0 && f.Reg < len(x.regs) {
			// describe by the original filter, so that the specification can evaluate it
			_, di := x.buildFilterDesc(x.regSpec[f.Reg])
			d["subs"] = []interface{}{di}
			d["live"] = x.regLive[f.Reg]
			return x.regs[f.Reg], d
		}
		panic("bad registration index in schedule")
	}
	panic("unknown filter kind " + f.K)
}

// buildFilterDesc resolves the description of a filter as it was when registered.
func (x *World) buildFilterDesc(f *FSpec) (ecs.Filter, map[string]interface{}) {
	return x.buildFilter(f)
}

func nonNil(v []int) []int {
	if v == nil {
		return []int{}
	}
	return v
}

// observeEntity reads everything the public API reports about one alive entity.
func (x *World) observeEntity(e ecs.Entity) map[string]interface{} {
	w := x.w
	m := w.Mask(e)
	comps := x.maskIDs(&m)
	alt := []interface{}{}
	rawIds := w.Ids(e)
	ids := idsToInts(rawIds)
	// the result is documented as the caller's own copy: use it as scratch space, as a caller may
	for i := range rawIds {
		rawIds[i] = rawIds[0]
	}
	if !sameInts(ids, comps) {
		alt = append(alt, map[string]interface{}{"view": "Ids", "ids": ids})
	}
	has := []int{}
	nn := []int{}
	for i := 0; i <= x.maxComp(); i++ {
		id := x.idOf(i)
		if w.Has(e, id) {
			has = append(has, i)
		}
		if w.Get(e, id) != nil {
			nn = append(nn, i)
		}
	}
	if !sameInts(has, comps) {
		alt = append(alt, map[string]interface{}{"view": "Has", "ids": has})
	}
	// zero-sized components also return non-nil pointers; Get must be non-nil exactly for present components
	if !sameInts(nn, comps) {
		alt = append(alt, map[string]interface{}{"view": "Get", "ids": nn})
	}
	vals := [][2]int{}
	tgt := [2]int{0, 0}
	rel := -1
	for _, n := range comps {
		c := x.comps[n]
		if c == nil {
			continue
		}
		if c.sized {
			vals = append(vals, [2]int{n, c.decode(w.Get(e, c.id))})
		}
		if c.isRel && rel < 0 {
			rel = n
			tgt = ent(w.Relations().Get(e, c.id))
		}
	}
	return map[string]interface{}{"e": ent(e), "comps": comps, "alt": alt, "vals": vals, "tgt": tgt, "rel": rel}
}

func (x *World) maxComp() int {
	if len(x.compNums) == 0 {
		return -1
	}
	if x.h.Generic && x.lateDone {
		return lateComp
	}
	return x.compNums[len(x.compNums)-1]
}

func sameInts(a, b []int) bool {
	if len(a) != len(b) {
		return false
	}
	for i := range a {
		if a[i] != b[i] {
			return false
		}
	}
	return true
}

// maxQueryLen bounds every iteration the harness performs (no schedule holds more than a few hundred entities).
const maxQueryLen = 20000

// queryEntities lists the entities of a query in iteration order.
func (x *World) queryEntities(f ecs.Filter) (res [][2]int, err string) {
	res = [][2]int{}
	defer func() {
		if r := recover(); r != nil {
			err = fmt.Sprint(r)
		}
	}()
	q := x.w.Query(f)
	for q.Next() {
		res = append(res, ent(q.Entity()))
		if len(res) > maxQueryLen {
			// a query that does not end: close it, report, and let the comparison with the specification fail
			q.Close()
			return res[:16], "query does not terminate"
		}
	}
	return res, ""
}

// observe builds the observable projection of the world.
func (x *World) observe() map[string]interface{} {
	w := x.w
	cur := x.issued[x.epoch:]
	issued := make([][2]int, len(cur))
	alive := make([]bool, len(cur))
	ents := []interface{}{}
	obsErr := []string{}
	for i, e := range cur {
		issued[i] = ent(e)
		func() {
			defer func() {
				if r := recover(); r != nil {
					obsErr = append(obsErr, fmt.Sprintf("Alive(%v): %v", e, r))
				}
			}()
			alive[i] = w.Alive(e)
		}()
	}
	seen := map[ecs.Entity]bool{}
	for i, e := range cur {
		if !alive[i] || seen[e] {
			continue
		}
		seen[e] = true
		func() {
			defer func() {
				if r := recover(); r != nil {
					obsErr = append(obsErr, fmt.Sprintf("observe(%v): %v", e, r))
				}
			}()
			ents = append(ents, x.observeEntity(e))
		}()
	}
	res := [][2]int{}
	for i, id := range x.resIDs {
		has := w.Resources().Has(id)
		got := w.Resources().Get(id)
		tok := -1
		if got != nil {
			if t, ok := got.(tokener); ok && !reflect.ValueOf(got).IsNil() {
				tok = t.tok()
				if x.resVals[i] != got {
					tok = -3 // not the exact pointer that was added
				}
			} else {
				tok = -2
			}
		}
		if has || got != nil {
			if !has {
				tok = -4
			}
			res = append(res, [2]int{i, tok})
		}
	}
	all, allErr := x.queryEntities(ecs.All())
	if allErr != "" {
		obsErr = append(obsErr, "Query(All()): "+allErr)
	}
	o := map[string]interface{}{
		"pool":   x.poolDump(),
		"issued": issued,
		"alive":  alive,
		"zeroAlive": func() (a bool) {
			defer func() { recover() }()
			return w.Alive(ecs.Entity{})
		}(),
		"used": func() (u int) {
			defer func() {
				if r := recover(); r != nil {
					u = -1
				}
			}()
			return w.Stats().Entities.Used
		}(),
		"locked": w.IsLocked(),
		"ents":   ents,
		"res":    res,
		"all":    all,
		"errs":   obsErr,
	}
	return o
}

// dumpRec renders an EntityDump; the generation of the reserved slot 0 (MaxUint32) is rendered as -1.
func dumpRec(d *ecs.EntityDump) map[string]interface{} {
	ents := make([][2]int, len(d.Entities))
	for i, e := range d.Entities {
		g := int(e.Generation())
		if e.Generation() == ^uint32(0) {
			g = -1
		}
		ents[i] = [2]int{int(e.ID()), g}
	}
	alive := make([]int, len(d.Alive))
	for i, a := range d.Alive {
		alive[i] = int(a)
	}
	return map[string]interface{}{"ents": ents, "alive": alive, "next": int(d.Next), "avail": int(d.Available), "ok": true}
}

// poolDump logs the entity pool as the public API exposes it (DumpEntities).
func (x *World) poolDump() (res map[string]interface{}) {
	defer func() {
		if r := recover(); r != nil {
			res = map[string]interface{}{"ents": [][2]int{}, "alive": []int{}, "next": 0, "avail": 0, "ok": false}
		}
	}()
	d := x.w.DumpEntities()
	return dumpRec(&d)
}

// sweep runs every live registered filter and its original, and logs both results.
func (x *World) sweep() []interface{} {
	res := []interface{}{}
	for i, cf := range x.regs {
		if !x.regLive[i] {
			continue
		}
		orig, desc := x.buildFilter(x.regSpec[i])
		c, cerr := x.queryEntities(cf)
		o, oerr := x.queryEntities(orig)
		res = append(res, map[string]interface{}{"reg": i, "f": desc, "cached": c, "orig": o, "cerr": cerr, "oerr": oerr})
	}
	return res
}

func panicClass(msg string) string {
	switch {
	case strings.Contains(msg, "locked world"):
		return "locked"
	case strings.Contains(msg, "runtime error"), strings.Contains(msg, "invalid memory address"), strings.Contains(msg, "index out of range"):
		return "runtime"
	}
	return "panic"
}
