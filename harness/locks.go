package main

import (
	"encoding/json"
	"flag"
	"fmt"
	"math/rand"
	"reflect"

	"github.com/mlange-42/arche/ecs"
	"github.com/mlange-42/arche/ecs/event"
	"github.com/mlange-42/arche/generic"
)

// C09: lock sources x structural entry points x release paths, and nesting up to the bit limit.

func init() { extraCommands["locks"] = cmdLocks }

type lkPos struct{ X, Y int64 }
type lkVel struct{ X int64 }
type lkRel struct {
	ecs.Relation
	V int64
}
type lkNew1 struct{ A int32 }

type entry struct {
	name string
	f    func()
}

type lockWorld struct {
	w       *ecs.World
	pos     ecs.ID
	vel     ecs.ID
	rel     ecs.ID
	ents    []ecs.Entity
	target  ecs.Entity
	cached  ecs.CachedFilter
	newType int
}

func newLockWorld() *lockWorld {
	w := ecs.NewWorld(ecs.NewConfig().WithCapacityIncrement(4))
	x := &lockWorld{w: &w}
	x.pos = ecs.ComponentID[lkPos](&w)
	x.vel = ecs.ComponentID[lkVel](&w)
	x.rel = ecs.ComponentID[lkRel](&w)
	x.target = w.NewEntity(x.pos)
	for i := 0; i < 6; i++ {
		x.ents = append(x.ents, ecs.NewBuilder(&w, x.pos, x.rel).WithRelation(x.rel).New(x.target))
	}
	for i := 0; i < 3; i++ {
		x.ents = append(x.ents, w.NewEntity(x.pos, x.vel))
	}
	x.cached = w.Cache().Register(ecs.All(x.pos))
	return x
}

// some alive entity with the given components present / absent
func (x *lockWorld) find(with []ecs.ID, without []ecs.ID) ecs.Entity {
	for _, e := range x.ents {
		if !x.w.Alive(e) {
			continue
		}
		ok := true
		for _, c := range with {
			ok = ok && x.w.Has(e, c)
		}
		for _, c := range without {
			ok = ok && !x.w.Has(e, c)
		}
		if ok {
			return e
		}
	}
	// make one
	e := x.w.NewEntity(with...)
	x.ents = append(x.ents, e)
	return e
}

// entries lists every structural entry point; each closure picks arguments that are legal when unlocked.
func (x *lockWorld) entries() []entry {
	w := x.w
	closeQ := func(q ecs.Query) { q.Close() }
	all := ecs.All
	excl := func(ids ...ecs.ID) ecs.Filter { f := ecs.All(ids...).Exclusive(); return &f }
	return []entry{
		{"World.NewEntity", func() { x.ents = append(x.ents, w.NewEntity(x.pos)) }},
		{"World.NewEntityWith", func() {
			x.ents = append(x.ents, w.NewEntityWith(ecs.Component{ID: x.pos, Comp: &lkPos{1, 2}}))
		}},
		{"World.RemoveEntity", func() { w.RemoveEntity(x.find([]ecs.ID{x.pos, x.vel}, nil)) }},
		{"World.Add", func() { w.Add(x.find([]ecs.ID{x.pos}, []ecs.ID{x.vel, x.rel}), x.vel) }},
		{"World.Remove", func() { w.Remove(x.find([]ecs.ID{x.pos, x.vel}, nil), x.vel) }},
		{"World.Exchange", func() { w.Exchange(x.find([]ecs.ID{x.pos, x.vel}, []ecs.ID{x.rel}), []ecs.ID{x.rel}, []ecs.ID{x.vel}) }},
		{"World.Assign", func() {
			w.Assign(x.find([]ecs.ID{x.pos}, []ecs.ID{x.vel}), ecs.Component{ID: x.vel, Comp: &lkVel{3}})
		}},
		{"World.Reset", nil}, // handled specially (destroys the fixture)
		{"World.LoadEntities", nil},
		{"ecs.ComponentID(new type)", nil},
		{"Builder.New", func() { x.ents = append(x.ents, ecs.NewBuilder(w, x.pos).New()) }},
		{"Builder.New(target)", func() {
			x.ents = append(x.ents, ecs.NewBuilder(w, x.rel).WithRelation(x.rel).New(x.target))
		}},
		{"BuilderWith.New", func() {
			x.ents = append(x.ents, ecs.NewBuilderWith(w, ecs.Component{ID: x.pos, Comp: &lkPos{}}).New())
		}},
		{"Builder.NewBatch", func() { ecs.NewBuilder(w, x.vel).NewBatch(2) }},
		{"Builder.NewBatchQ", func() { closeQ(ecs.NewBuilder(w, x.vel).NewBatchQ(2)) }},
		{"Builder.Add", func() { ecs.NewBuilder(w, x.vel).Add(x.find([]ecs.ID{x.pos}, []ecs.ID{x.vel})) }},
		{"BuilderWith.Add", func() {
			ecs.NewBuilderWith(w, ecs.Component{ID: x.vel, Comp: &lkVel{}}).Add(x.find([]ecs.ID{x.pos}, []ecs.ID{x.vel}))
		}},
		{"Relations.Set", func() { w.Relations().Set(x.find([]ecs.ID{x.rel}, nil), x.rel, ecs.Entity{}) }},
		{"Relations.SetBatch", func() { w.Relations().SetBatch(all(x.rel), x.rel, x.target) }},
		{"Relations.SetBatchQ", func() { closeQ(w.Relations().SetBatchQ(all(x.rel), x.rel, ecs.Entity{})) }},
		{"Relations.Exchange", func() {
			w.Relations().Exchange(x.find([]ecs.ID{x.pos}, []ecs.ID{x.rel}), []ecs.ID{x.rel}, nil, x.rel, x.target)
		}},
		{"Relations.ExchangeBatch", func() {
			w.Relations().ExchangeBatch(excl(x.pos, x.vel), []ecs.ID{x.rel}, []ecs.ID{x.vel}, x.rel, x.target)
		}},
		{"Relations.ExchangeBatchQ", func() {
			closeQ(w.Relations().ExchangeBatchQ(excl(x.vel), []ecs.ID{x.rel}, nil, x.rel, x.target))
		}},
		{"Batch.Add", func() { w.Batch().Add(excl(x.pos), x.vel) }},
		{"Batch.AddQ", func() { closeQ(w.Batch().AddQ(excl(x.pos), x.vel)) }},
		{"Batch.Remove", func() { w.Batch().Remove(excl(x.pos, x.vel), x.vel) }},
		{"Batch.RemoveQ", func() { closeQ(w.Batch().RemoveQ(excl(x.pos, x.vel), x.vel)) }},
		{"Batch.Exchange", func() { w.Batch().Exchange(excl(x.pos), []ecs.ID{x.vel}, []ecs.ID{x.pos}) }},
		{"Batch.ExchangeQ", func() {
			closeQ(w.Batch().ExchangeQ(excl(x.vel), []ecs.ID{x.pos}, nil))
		}},
		{"Batch.SetRelation", func() { w.Batch().SetRelation(all(x.rel), x.rel, ecs.Entity{}) }},
		{"Batch.SetRelationQ", func() { closeQ(w.Batch().SetRelationQ(all(x.rel), x.rel, x.target)) }},
		{"Batch.RemoveEntities", func() { w.Batch().RemoveEntities(excl(x.vel)) }},
		// generic API
		{"generic.Map1.New", func() { m := generic.NewMap1[lkPos](w); x.ents = append(x.ents, m.New()) }},
		{"generic.Map1.NewWith", func() { m := generic.NewMap1[lkPos](w); x.ents = append(x.ents, m.NewWith(&lkPos{4, 5})) }},
		{"generic.Map1.NewBatch", func() { m := generic.NewMap1[lkVel](w); m.NewBatch(2) }},
		{"generic.Map1.NewBatchQ", func() { m := generic.NewMap1[lkVel](w); q := m.NewBatchQ(2); q.Close() }},
		{"generic.Map1.Add", func() { m := generic.NewMap1[lkVel](w); m.Add(x.find([]ecs.ID{x.pos}, []ecs.ID{x.vel})) }},
		{"generic.Map1.Assign", func() {
			m := generic.NewMap1[lkVel](w)
			m.Assign(x.find([]ecs.ID{x.pos}, []ecs.ID{x.vel}), &lkVel{9})
		}},
		{"generic.Map1.Remove", func() { m := generic.NewMap1[lkVel](w); m.Remove(x.find([]ecs.ID{x.pos, x.vel}, nil)) }},
		{"generic.Map1.AddBatch", func() { m := generic.NewMap1[lkVel](w); m.AddBatch(excl(x.pos)) }},
		{"generic.Map1.AddBatchQ", func() { m := generic.NewMap1[lkVel](w); q := m.AddBatchQ(excl(x.pos)); q.Close() }},
		{"generic.Map1.RemoveBatch", func() { m := generic.NewMap1[lkVel](w); m.RemoveBatch(excl(x.pos, x.vel)) }},
		{"generic.Map1.RemoveBatchQ", func() {
			m := generic.NewMap1[lkVel](w)
			q := m.RemoveBatchQ(excl(x.pos, x.vel))
			q.Close()
		}},
		{"generic.Map1.RemoveEntities", func() { m := generic.NewMap1[lkVel](w); m.RemoveEntities(true) }},
		{"generic.Map2.New(target)", func() {
			m := generic.NewMap2[lkPos, lkRel](w, generic.T[lkRel]())
			x.ents = append(x.ents, m.New(x.target))
		}},
		{"generic.Map.SetRelation", func() {
			m := generic.NewMap[lkRel](w)
			m.SetRelation(x.find([]ecs.ID{x.rel}, nil), ecs.Entity{})
		}},
		{"generic.Map.SetRelationBatch", func() { m := generic.NewMap[lkRel](w); m.SetRelationBatch(all(x.rel), x.target) }},
		{"generic.Map.SetRelationBatchQ", func() {
			m := generic.NewMap[lkRel](w)
			q := m.SetRelationBatchQ(all(x.rel), ecs.Entity{})
			q.Close()
		}},
		{"generic.Exchange.NewEntity", func() {
			ex := generic.NewExchange(w).Adds(generic.T[lkPos]())
			x.ents = append(x.ents, ex.NewEntity())
		}},
		{"generic.Exchange.Add", func() {
			ex := generic.NewExchange(w).Adds(generic.T[lkVel]())
			ex.Add(x.find([]ecs.ID{x.pos}, []ecs.ID{x.vel}))
		}},
		{"generic.Exchange.Remove", func() {
			ex := generic.NewExchange(w).Removes(generic.T[lkVel]())
			ex.Remove(x.find([]ecs.ID{x.pos, x.vel}, nil))
		}},
		{"generic.Exchange.Exchange", func() {
			ex := generic.NewExchange(w).Adds(generic.T[lkRel]()).Removes(generic.T[lkVel]()).WithRelation(generic.T[lkRel]())
			ex.Exchange(x.find([]ecs.ID{x.pos, x.vel}, []ecs.ID{x.rel}), x.target)
		}},
		{"generic.Exchange.ExchangeBatch", func() {
			ex := generic.NewExchange(w).Adds(generic.T[lkVel]())
			ex.ExchangeBatch(excl(x.pos))
		}},
	}
}

func (x *lockWorld) fingerprint() string {
	s := x.w.VerifShape()
	// the lock state itself is expected to be unchanged as well
	b, _ := json.Marshal(s)
	st := x.w.Stats()
	return fmt.Sprintf("%s|%d|%d", b, st.Entities.Used, st.ComponentCount)
}

type heldQ struct {
	q    ecs.Query
	kind string
	n    int // entities in the query
}

func cmdLocks(args []string) {
	fs := flag.NewFlagSet("locks", flag.ExitOnError)
	seed := fs.Int64("seed", 1, "seed")
	tier := fs.String("tier", "quick", "tier")
	outp := fs.String("out", "", "trace file")
	fs.Parse(args)
	rng := rand.New(rand.NewSource(*seed))
	out := newLineWriter(*outp)
	total := ecs.MaskTotalBits
	x := newLockWorld()
	w := x.w
	out.write(map[string]interface{}{"op": "hdr", "totalBits": total, "locks": w.VerifShape().Locks, "locked": w.IsLocked()})

	held := map[int]*heldQ{}
	next := 0
	logLine := func(l map[string]interface{}) {
		l["locked"] = w.IsLocked()
		l["locks"] = w.VerifShape().Locks
		l["nheld"] = len(held)
		out.write(l)
	}
	open := func(kind string) {
		var hq *heldQ
		r := guard(func(r *result) {
			switch kind {
			case "cached":
				hq = &heldQ{q: w.Query(&x.cached), kind: kind}
			case "batchq":
				// a batch-result query: set the target of all relation entities to what it is (nothing changes)
				hq = &heldQ{q: w.Batch().SetRelationQ(ecs.All(x.rel), x.rel, x.target), kind: kind}
			default:
				hq = &heldQ{q: w.Query(ecs.All(x.pos)), kind: kind}
			}
		})
		qi := -1
		if !r.panicked {
			qi = next
			next++
			hq.n = hq.q.Count()
			held[qi] = hq
		}
		logLine(map[string]interface{}{"op": "open", "kind": kind, "qi": qi, "res": map[string]interface{}{"panic": r.panicked, "msg": r.msg}})
	}
	closeOne := func(qi int, how string) {
		hq := held[qi]
		delete(held, qi)
		r := guard(func(r *result) {
			switch how {
			case "next":
				for hq.q.Next() {
				}
			case "step":
				for hq.q.Step(2) {
				}
			case "count-at":
				c := hq.q.Count()
				if c > 0 {
					hq.q.EntityAt(c - 1)
				}
				hq.q.Close()
			default:
				hq.q.Close()
			}
		})
		logLine(map[string]interface{}{"op": "close", "qi": qi, "how": how, "kind": hq.kind, "res": map[string]interface{}{"panic": r.panicked, "msg": r.msg}})
	}
	heldKeys := func() []int {
		ks := []int{}
		for k := range held {
			ks = append(ks, k)
		}
		// deterministic order
		for i := 1; i < len(ks); i++ {
			for j := i; j > 0 && ks[j-1] > ks[j]; j-- {
				ks[j-1], ks[j] = ks[j], ks[j-1]
			}
		}
		return ks
	}
	tryEntries := func(which []entry) {
		for _, e := range which {
			before := x.fingerprint()
			var r result
			switch e.name {
			case "World.Reset":
				if !w.IsLocked() {
					continue // would destroy the fixture; Reset is exercised unlocked by the world-family checks
				}
				r = guard(func(r *result) { w.Reset() })
			case "World.LoadEntities":
				if !w.IsLocked() {
					continue
				}
				d := ecs.EntityDump{Entities: []ecs.Entity{{}}, Alive: []uint32{}}
				r = guard(func(r *result) { w.LoadEntities(&d) })
			case "ecs.ComponentID(new type)":
				// relation types and plain types alternate, so that a registration rejected under lock is followed
				// by a successful one of the other kind that receives the same ID
				x.newType++
				wantRel := x.newType%2 == 1
				fields := []reflect.StructField{{Name: fmt.Sprintf("L%d", x.newType), Type: reflect.TypeOf(int32(0))}}
				if wantRel {
					fields = append([]reflect.StructField{{Name: "Relation", Type: relationType, Anonymous: true}}, fields...)
				}
				tp := reflect.StructOf(fields)
				regRel, usable := wantRel, true
				r = guard(func(r *result) {
					id := ecs.TypeID(w, tp)
					if info, ok := ecs.ComponentInfo(w, id); ok {
						regRel = info.IsRelation
					} else {
						usable = false
					}
					if !wantRel {
						// a plain component can be combined with a relation component on one entity
						ru := guard(func(r *result) {
							e := ecs.NewBuilder(w, id, x.rel).WithRelation(x.rel).New(x.target)
							if w.Relations().Get(e, x.rel) != x.target || !w.Has(e, id) {
								usable = false
							}
							w.RemoveEntity(e)
						})
						usable = usable && !ru.panicked
					}
				})
				after := x.fingerprint()
				logLine(map[string]interface{}{"op": "struct", "api": e.name,
					"res": map[string]interface{}{"panic": r.panicked, "msg": r.msg, "cls": clsOf(r)}, "unchanged": before == after,
					"reg": map[string]interface{}{"wantRel": wantRel, "isRel": regRel, "usable": usable}})
				continue
			default:
				r = guard(func(r *result) { e.f() })
			}
			after := x.fingerprint()
			logLine(map[string]interface{}{"op": "struct", "api": e.name,
				"res": map[string]interface{}{"panic": r.panicked, "msg": r.msg, "cls": clsOf(r)}, "unchanged": before == after})
		}
	}
	entries := x.entries()
	kinds := []string{"plain", "cached", "batchq"}
	hows := []string{"close", "next", "step", "count-at"}

	// 1. every entry point under every lock source, then unlocked
	for _, k := range kinds {
		open(k)
		tryEntries(entries)
		closeOne(heldKeys()[0], hows[rng.Intn(len(hows))])
		tryEntries(entries)
	}
	// 2. removal listener: the world is locked while a removal event is delivered
	probeRes := []interface{}{}
	lst := &lockProbe{x: x, entries: entries[:6], out: &probeRes}
	w.SetListener(lst)
	w.RemoveEntity(x.find([]ecs.ID{x.pos}, nil))
	w.SetListener(nil)
	logLine(map[string]interface{}{"op": "listener", "probes": probeRes})
	// 3. nesting up to the limit, several rounds with seeded release order
	rounds := 3
	if *tier == "thorough" {
		rounds = 8
	}
	for r := 0; r < rounds; r++ {
		n := total
		if r%3 == 2 {
			n = 1 + rng.Intn(total)
		}
		for tries := 0; len(held) < n && tries < 2*total; tries++ {
			open(kinds[rng.Intn(len(kinds))])
		}
		if len(held) == total {
			open("plain") // one beyond the limit
			tryEntries(entries[:4])
		}
		ks := heldKeys()
		rng.Shuffle(len(ks), func(i, j int) { ks[i], ks[j] = ks[j], ks[i] })
		leave := 0
		if r%2 == 1 && len(ks) > 0 {
			leave = rng.Intn(len(ks))
		}
		for _, k := range ks[leave:] {
			closeOne(k, hows[rng.Intn(len(hows))])
		}
		if !w.IsLocked() {
			tryEntries(entries[:4])
		}
	}
	for _, k := range heldKeys() {
		closeOne(k, "close")
	}
	tryEntries(entries)
	out.close()
	fmt.Printf("{\"lines\":%d}\n", out.n)
}

// lockProbe tries structural calls from inside a removal notification.
type lockProbe struct {
	x       *lockWorld
	entries []entry
	out     *[]interface{}
}

func (l *lockProbe) Subscriptions() event.Subscription { return event.All }

func (l *lockProbe) Components() *ecs.Mask { return nil }

func (l *lockProbe) Notify(w *ecs.World, e ecs.EntityEvent) {
	locked := w.IsLocked()
	for _, en := range l.entries {
		if en.f == nil || !locked {
			continue
		}
		before := l.x.fingerprint()
		r := guard(func(r *result) { en.f() })
		*l.out = append(*l.out, map[string]interface{}{"api": en.name, "locked": locked, "panic": r.panicked,
			"unchanged": before == l.x.fingerprint(), "removal": e.EventTypes&event.EntityRemoved != 0})
	}
	if !locked {
		*l.out = append(*l.out, map[string]interface{}{"api": "", "locked": false, "panic": false, "unchanged": true,
			"removal": e.EventTypes&event.EntityRemoved != 0})
	}
}
