package main

import (
	"fmt"
	"reflect"
	"runtime"
	"sync"
	"unsafe"

	"github.com/mlange-42/arche/ecs"
)

// CompSpec places a component kind at a component ID.
type CompSpec struct {
	ID   int    `json:"id"`
	Kind string `json:"kind"`
	Key  int    `json:"key,omitempty"` // identity of the Go type is (Kind, Key-1); 0 = use the id
}

// Payload is the heap object referenced by pointer-carrying components (C14).
type Payload struct {
	Magic uint64
	Token int64
	Check uint64
	Pad   [4]uint64
}

const payloadMagic = 0xA5C3E1F00F1E3C5A

// payload accounting for the release checks (C14)
var payMu sync.Mutex
var payCreated = map[int64]int{}   // token -> number of payload objects created
var payFinalized = map[int64]int{} // token -> number of payload objects finalized
var payTrack bool

func fillPayload(p *Payload, token int64) {
	p.Magic, p.Token, p.Check = payloadMagic, token, ^uint64(token)^payloadMagic
	for i := range p.Pad {
		p.Pad[i] = uint64(token)*uint64(i+3) + 17
	}
}

func newPayload(token int64) *Payload {
	p := &Payload{}
	fillPayload(p, token)
	if payTrack {
		payMu.Lock()
		payCreated[token]++
		payMu.Unlock()
		runtime.SetFinalizer(p, func(q *Payload) {
			payMu.Lock()
			payFinalized[q.Token]++
			payMu.Unlock()
		})
	}
	return p
}

// Static pointer-carrying component types (needed for non-escaping call-site shapes).
type ptrS0 struct {
	P *Payload
	T int64
}
type ptrS1 struct {
	P *Payload
	T int64
}
type ptrS2 struct {
	P *Payload
	T int64
}
type ptrS3 struct {
	P *Payload
	T int64
}

var ptrStatic = []reflect.Type{reflect.TypeOf(ptrS0{}), reflect.TypeOf(ptrS1{}), reflect.TypeOf(ptrS2{}), reflect.TypeOf(ptrS3{})}
var ptrStaticUsed = 0
var ptrStaticByNum = map[int]int{}

//go:noinline
func clobberStack() int {
	var junk [4096]uint64
	for i := range junk {
		junk[i] = 0xdeadbeefdeadbeef ^ uint64(i)
	}
	s := 0
	for i := range junk {
		s += int(junk[i] & 1)
	}
	return s
}

// setNonEscaping calls World.Set with a component literal and a payload that live in this frame
// unless the compiler decides that the argument escapes.
//
//go:noinline
func setNonEscaping(w *ecs.World, e ecs.Entity, id ecs.ID, which int, token int64) {
	var pl Payload
	fillPayload(&pl, token)
	switch which {
	case 0:
		c := ptrS0{P: &pl, T: token}
		w.Set(e, id, &c)
	case 1:
		c := ptrS1{P: &pl, T: token}
		w.Set(e, id, &c)
	case 2:
		c := ptrS2{P: &pl, T: token}
		w.Set(e, id, &c)
	default:
		c := ptrS3{P: &pl, T: token}
		w.Set(e, id, &c)
	}
}

//go:noinline
func assignNonEscaping(w *ecs.World, e ecs.Entity, id ecs.ID, which int, token int64) {
	var pl Payload
	fillPayload(&pl, token)
	switch which {
	case 0:
		c := ptrS0{P: &pl, T: token}
		w.Assign(e, ecs.Component{ID: id, Comp: &c})
	case 1:
		c := ptrS1{P: &pl, T: token}
		w.Assign(e, ecs.Component{ID: id, Comp: &c})
	case 2:
		c := ptrS2{P: &pl, T: token}
		w.Assign(e, ecs.Component{ID: id, Comp: &c})
	default:
		c := ptrS3{P: &pl, T: token}
		w.Assign(e, ecs.Component{ID: id, Comp: &c})
	}
}

//go:noinline
func newWithNonEscaping(w *ecs.World, id ecs.ID, which int, token int64) ecs.Entity {
	var pl Payload
	fillPayload(&pl, token)
	switch which {
	case 0:
		c := ptrS0{P: &pl, T: token}
		return w.NewEntityWith(ecs.Component{ID: id, Comp: &c})
	case 1:
		c := ptrS1{P: &pl, T: token}
		return w.NewEntityWith(ecs.Component{ID: id, Comp: &c})
	case 2:
		c := ptrS2{P: &pl, T: token}
		return w.NewEntityWith(ecs.Component{ID: id, Comp: &c})
	default:
		c := ptrS3{P: &pl, T: token}
		return w.NewEntityWith(ecs.Component{ID: id, Comp: &c})
	}
}

func (p *Payload) intact(token int64) bool {
	if p == nil || p.Magic != payloadMagic || p.Token != token || p.Check != ^uint64(token)^payloadMagic {
		return false
	}
	for i := range p.Pad {
		if p.Pad[i] != uint64(token)*uint64(i+3)+17 {
			return false
		}
	}
	return true
}

var relationType = reflect.TypeOf(ecs.Relation{})

// compInfo describes one registered component type used by schedules.
type compInfo struct {
	id    ecs.ID
	num   int
	kind  string
	tp    reflect.Type
	isRel bool
	sized bool // carries a value
	ptr   bool // carries pointers
}

var typeMu sync.Mutex

// makeType creates a distinct Go type for component number n of the given kind.
func makeType(kind string, n int) reflect.Type {
	typeMu.Lock()
	defer typeMu.Unlock()
	tag := fmt.Sprintf("N%d", n)
	f := func(name string, tp reflect.Type) reflect.StructField {
		return reflect.StructField{Name: name + tag, Type: tp}
	}
	rel := reflect.StructField{Name: "Relation", Type: relationType, Anonymous: true}
	i64 := reflect.TypeOf(int64(0))
	switch kind {
	case "u64":
		return reflect.StructOf([]reflect.StructField{f("V", i64)})
	case "u8":
		return reflect.StructOf([]reflect.StructField{f("V", reflect.TypeOf(uint8(0)))})
	case "big":
		return reflect.StructOf([]reflect.StructField{f("A", i64), f("B", i64), f("C", i64)})
	case "odd":
		return reflect.StructOf([]reflect.StructField{f("A", reflect.TypeOf([3]uint8{}))})
	case "label":
		// zero-sized; distinct by an empty array of a distinct struct
		return reflect.StructOf([]reflect.StructField{f("Z", reflect.ArrayOf(0, i64))})
	case "rel":
		return reflect.StructOf([]reflect.StructField{rel, f("Z", reflect.ArrayOf(0, i64))})
	case "relv":
		return reflect.StructOf([]reflect.StructField{rel, f("V", i64)})
	case "ptr":
		if k, ok := ptrStaticByNum[n]; ok {
			return ptrStatic[k]
		}
		if ptrStaticUsed < len(ptrStatic) && n < 256 {
			ptrStaticByNum[n] = ptrStaticUsed
			ptrStaticUsed++
			return ptrStatic[ptrStaticByNum[n]]
		}
		return reflect.StructOf([]reflect.StructField{f("P", reflect.TypeOf((*Payload)(nil))), f("T", i64)})
	case "ptr1":
		// exactly one machine word, and that word is a pointer (the smallest pointer-carrying component)
		return reflect.StructOf([]reflect.StructField{f("P", reflect.TypeOf((*Payload)(nil)))})
	case "slice":
		return reflect.StructOf([]reflect.StructField{f("S", reflect.TypeOf([]*Payload(nil))), f("T", i64)})
	case "str":
		return reflect.StructOf([]reflect.StructField{f("S", reflect.TypeOf("")), f("T", i64)})
	case "map":
		return reflect.StructOf([]reflect.StructField{f("M", reflect.TypeOf(map[int]*Payload(nil))), f("T", i64)})
	case "relptr":
		return reflect.StructOf([]reflect.StructField{rel, f("P", reflect.TypeOf((*Payload)(nil))), f("T", i64)})
	case "filler":
		return reflect.StructOf([]reflect.StructField{f("F", reflect.TypeOf(uint16(0)))})
	}
	panic("unknown component kind " + kind)
}

func kindIsRel(kind string) bool { return kind == "rel" || kind == "relv" || kind == "relptr" }
func kindSized(kind string) bool { return kind != "label" && kind != "rel" }
func kindPtr(kind string) bool {
	return kind == "ptr" || kind == "ptr1" || kind == "slice" || kind == "str" || kind == "map" || kind == "relptr"
}

// strPayload builds a heap string that encodes the token.
func strPayload(token int64) string {
	b := make([]byte, 0, 48)
	b = append(b, fmt.Sprintf("tok:%d:", token)...)
	for len(b) < 40 {
		b = append(b, byte('a'+int(token%23)))
	}
	return string(b)
}

// newValue returns a pointer (as interface and unsafe pointer) to a fresh value of the component encoding v.
func (c *compInfo) newValue(v int) (interface{}, unsafe.Pointer) {
	val := reflect.New(c.tp)
	p := val.UnsafePointer()
	c.encode(p, v)
	return val.Interface(), p
}

// encode writes value v into the component at p.
func (c *compInfo) encode(p unsafe.Pointer, v int) {
	switch c.kind {
	case "u64":
		*(*int64)(p) = int64(v)
	case "relv":
		*(*int64)(p) = int64(v)
	case "u8":
		*(*uint8)(p) = uint8(v)
	case "big":
		a := (*[3]int64)(p)
		a[0], a[1], a[2] = int64(v), int64(v)*7+3, -int64(v)
	case "odd":
		a := (*[3]uint8)(p)
		a[0], a[1], a[2] = uint8(v), uint8(v)^0x5a, ^uint8(v)
	case "ptr1":
		s := (*struct{ P *Payload })(p)
		if v == 0 {
			s.P = nil
		} else {
			s.P = newPayload(int64(v))
		}
	case "ptr", "relptr":
		s := (*struct {
			P *Payload
			T int64
		})(p)
		if v == 0 {
			s.P, s.T = nil, 0
		} else {
			s.P, s.T = newPayload(int64(v)), int64(v)
		}
	case "slice":
		s := (*struct {
			S []*Payload
			T int64
		})(p)
		if v == 0 {
			s.S, s.T = nil, 0
		} else {
			s.S, s.T = []*Payload{newPayload(int64(v)), newPayload(int64(v) + 1)}, int64(v)
		}
	case "str":
		s := (*struct {
			S string
			T int64
		})(p)
		if v == 0 {
			s.S, s.T = "", 0
		} else {
			s.S, s.T = strPayload(int64(v)), int64(v)
		}
	case "map":
		s := (*struct {
			M map[int]*Payload
			T int64
		})(p)
		if v == 0 {
			s.M, s.T = nil, 0
		} else {
			s.M, s.T = map[int]*Payload{1: newPayload(int64(v))}, int64(v)
		}
	}
}

// decode reads the value of the component at p; -1 marks a corrupted value.
func (c *compInfo) decode(p unsafe.Pointer) int {
	if p == nil {
		return -2
	}
	switch c.kind {
	case "u64", "relv":
		v := *(*int64)(p)
		if v < 0 || v > 1<<30 {
			return -1
		}
		return int(v)
	case "u8":
		return int(*(*uint8)(p))
	case "big":
		a := (*[3]int64)(p)
		if a[1] != a[0]*7+3 || a[2] != -a[0] || a[0] < 0 || a[0] > 1<<30 {
			if a[0] == 0 && a[1] == 0 && a[2] == 0 {
				return 0
			}
			return -1
		}
		return int(a[0])
	case "odd":
		a := (*[3]uint8)(p)
		if a[0] == 0 && a[1] == 0 && a[2] == 0 {
			return 0
		}
		if a[1] != a[0]^0x5a || a[2] != ^a[0] {
			return -1
		}
		return int(a[0])
	case "ptr1":
		s := (*struct{ P *Payload })(p)
		if s.P == nil {
			return 0
		}
		t := s.P.Token
		if t <= 0 || t > 1<<30 || !s.P.intact(t) {
			return -1
		}
		return int(t)
	case "ptr", "relptr":
		s := (*struct {
			P *Payload
			T int64
		})(p)
		if s.T == 0 && s.P == nil {
			return 0
		}
		if s.T <= 0 || s.T > 1<<30 || !s.P.intact(s.T) {
			return -1
		}
		return int(s.T)
	case "slice":
		s := (*struct {
			S []*Payload
			T int64
		})(p)
		if s.T == 0 && s.S == nil {
			return 0
		}
		if s.T <= 0 || s.T > 1<<30 || len(s.S) != 2 || !s.S[0].intact(s.T) || !s.S[1].intact(s.T+1) {
			return -1
		}
		return int(s.T)
	case "str":
		s := (*struct {
			S string
			T int64
		})(p)
		if s.T == 0 && s.S == "" {
			return 0
		}
		if s.T <= 0 || s.T > 1<<30 || s.S != strPayload(s.T) {
			return -1
		}
		return int(s.T)
	case "map":
		s := (*struct {
			M map[int]*Payload
			T int64
		})(p)
		if s.T == 0 && s.M == nil {
			return 0
		}
		if s.T <= 0 || s.T > 1<<30 || len(s.M) != 1 || !s.M[1].intact(s.T) {
			return -1
		}
		return int(s.T)
	}
	return 0
}

// maxVal is the largest value that a component kind can hold.
func (c *compInfo) maxVal() int {
	if c.kind == "u8" || c.kind == "odd" {
		return 200
	}
	return 1000000
}
